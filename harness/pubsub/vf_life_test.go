//go:build verif

package pubsub

import (
	"encoding/json"
	"os"
	"path/filepath"
	"context"
	"fmt"
	"math/rand"
	"sort"
	"strings"
	"sync"
	"testing"
	"testing/synctest"
	"time"

	pb "github.com/libp2p/go-libp2p-pubsub/pb"
	"github.com/libp2p/go-libp2p/core/connmgr"
	"github.com/libp2p/go-libp2p/core/host"
	"github.com/libp2p/go-libp2p/core/network"
	"github.com/libp2p/go-libp2p/core/peer"
	"github.com/libp2p/go-libp2p/core/protocol"
	"github.com/libp2p/go-msgio/protoio"
)

// Peer lifecycles over REAL streams (C13, C16): node A is a real gossipsub node (scoring, gater, extensions,
// a recording connection manager for the pubsub protections); the remote peer B is a bare libp2p host driven
// by the harness: it connects, opens / closes / resets its outbound pubsub stream (A's inbound), accepts or
// kills A's outbound stream, sends RPCs of every kind, disconnects.  After every action the bubble is run to
// quiescence and every per-peer map of A is inspected inside the event loop.

type vfCmgr struct {
	connmgr.NullConnMgr
	mu   sync.Mutex
	prot map[peer.ID]map[string]bool
}

func (c *vfCmgr) Protect(p peer.ID, tag string) {
	c.mu.Lock()
	defer c.mu.Unlock()
	if c.prot[p] == nil {
		c.prot[p] = map[string]bool{}
	}
	c.prot[p][tag] = true
}
func (c *vfCmgr) Unprotect(p peer.ID, tag string) bool {
	c.mu.Lock()
	defer c.mu.Unlock()
	delete(c.prot[p], tag)
	if len(c.prot[p]) == 0 {
		delete(c.prot, p)
	}
	return len(c.prot[p]) > 0
}
func (c *vfCmgr) tags(p peer.ID) []string {
	c.mu.Lock()
	defer c.mu.Unlock()
	var l []string
	for t := range c.prot[p] {
		l = append(l, t)
	}
	sort.Strings(l)
	return l
}

type vfMock struct {
	t     *testing.T
	h     host.Host
	a     host.Host
	proto protocol.ID
	mu    sync.Mutex
	in    network.Stream // A's outbound stream, as it arrives at B
	out   network.Stream // B's outbound stream = A's inbound
	nIn   int
	recv  []*pb.RPC
	pause chan struct{} // non-nil: the mock does not read from A's stream until it is closed
}

func (m *vfMock) install() {
	for _, pr := range []protocol.ID{GossipSubID_v13, GossipSubID_v12, GossipSubID_v11, GossipSubID_v10, FloodSubID} {
		pr := pr
		if pr != m.proto {
			continue
		}
		m.h.SetStreamHandler(pr, func(s network.Stream) {
			m.mu.Lock()
			m.in = s
			m.nIn++
			m.mu.Unlock()
			r := protoio.NewDelimitedReader(s, 1<<22)
			for {
				m.mu.Lock()
				pc := m.pause
				m.mu.Unlock()
				if pc != nil {
					<-pc
				}
				var rpc pb.RPC
				if err := r.ReadMsg(&rpc); err != nil {
					return
				}
				m.mu.Lock()
				m.recv = append(m.recv, &rpc)
				m.mu.Unlock()
			}
		})
	}
}

func (m *vfMock) send(rpc *pb.RPC) bool {
	if m.out == nil {
		return false
	}
	w := protoio.NewDelimitedWriter(m.out)
	return w.WriteMsg(rpc) == nil
}

// everything node A still holds about peer p
func vfResidue(ps *PubSub, cm *vfCmgr, p peer.ID) []string {
	var r []string
	add := func(c bool, s string) {
		if c {
			r = append(r, s)
		}
	}
	gs := ps.rt.(*GossipSubRouter)
	vfEval(ps, func() {
		_, ok := ps.peers[p]
		add(ok, "queue")
		for t, m := range ps.topics {
			_, ok := m[p]
			add(ok, "topics:"+t)
		}
		_, ok = gs.peers[p]
		add(ok, "gs.peers")
		_, ok = gs.outbound[p]
		add(ok, "gs.outbound")
		for t, m := range gs.mesh {
			_, ok := m[p]
			add(ok, "mesh:"+t)
		}
		for t, m := range gs.fanout {
			_, ok := m[p]
			add(ok, "fanout:"+t)
		}
		for t, m := range gs.backoff {
			_, ok := m[p]
			add(ok, "backoff:"+t)
		}
		_, ok = gs.gossip[p]
		add(ok, "gossip")
		_, ok = gs.control[p]
		add(ok, "control")
		_, ok = gs.peerhave[p]
		add(ok, "peerhave")
		_, ok = gs.iasked[p]
		add(ok, "iasked")
		_, ok = gs.peerdontwant[p]
		add(ok, "peerdontwant")
		_, ok = gs.unwanted[p]
		add(ok, "unwanted")
		if gs.gossipTracer != nil {
			gs.gossipTracer.Lock()
			_, ok = gs.gossipTracer.peerPromises[p]
			add(ok, "promises")
			for _, m := range gs.gossipTracer.promises {
				if _, ok := m[p]; ok {
					add(true, "promises-by-id")
					break
				}
			}
			gs.gossipTracer.Unlock()
		}
		if gs.score != nil {
			gs.score.Lock()
			_, ok = gs.score.peerStats[p]
			add(ok, "score")
			for _, m := range gs.score.peerIPs {
				if _, ok := m[p]; ok {
					add(true, "score-ips")
					break
				}
			}
			gs.score.Unlock()
		}
		if gs.gate != nil {
			gs.gate.Lock()
			_, ok = gs.gate.peerStats[p]
			add(ok, "gater")
			gs.gate.Unlock()
		}
		_, ok = gs.extensions.peerExtensions[p]
		add(ok, "ext.peer")
		_, ok = gs.extensions.sentExtensions[p]
		add(ok, "ext.sent")
	})
	ps.inboundStreamsMx.Lock()
	_, ok := ps.inboundStreams[p]
	ps.inboundStreamsMx.Unlock()
	add(ok, "inbound")
	for _, t := range cm.tags(p) {
		add(true, "protect:"+t)
	}
	sort.Strings(r)
	return r
}

type vfLifeCfg struct {
	blacklistOps bool // C16: include BlacklistPeer / direct blacklist insertion
	noVal1       bool // topic 1 has no validator: its messages are published straight from pushMsg, without the post-validation re-check
	script       int  // 1: a GRAFT on the peer's own stream while the node's outbound stream to it is down, then (C16) BlacklistPeer / (C13) carry on
}

func vfLifeHistory(t *testing.T, rng *rand.Rand, nops int, cfg vfLifeCfg) (lit string, rec map[string]any, finalResidue []string, nontrivial bool, queueViol map[string]any) {
	synctest.Test(t, func(t *testing.T) {
		ctx, cancel := context.WithCancel(context.Background())
		defer cancel()
		hosts := vfHosts(t, 3)
		ha, hb, hc := hosts[0], hosts[1], hosts[2]
		proto := []protocol.ID{GossipSubID_v13, GossipSubID_v12, GossipSubID_v11, GossipSubID_v10, FloodSubID}[rng.Intn(5)]
		cm := &vfCmgr{prot: map[peer.ID]map[string]bool{}}
		gp := DefaultGossipSubParams()
		gp.HeartbeatInitialDelay, gp.HeartbeatInterval = 100000*time.Hour, 100000*time.Hour
		gp.PruneBackoff, gp.UnsubscribeBackoff = 4*time.Second, 2*time.Second
		gp.IWantFollowupTime = 2 * time.Second
		sp := &PeerScoreParams{AppSpecificScore: func(peer.ID) float64 { return 0 }, DecayInterval: time.Second, DecayToZero: 0.01, RetainScore: 3 * time.Second,
			Topics: map[string]*TopicScoreParams{"t0": {TopicWeight: 1, TimeInMeshQuantum: time.Second, InvalidMessageDeliveriesWeight: -1, InvalidMessageDeliveriesDecay: 0.5}}}
		th := &PeerScoreThresholds{GossipThreshold: -10, PublishThreshold: -20, GraylistThreshold: -30, AcceptPXThreshold: 10, OpportunisticGraftThreshold: 1}
		gt := NewPeerGaterParams(0.33, ScoreParameterDecay(2*time.Second), ScoreParameterDecay(10*time.Second))
		gt.RetainStats = 3 * time.Second
		var bl Blacklist = NewMapBlacklist()
		blKind := "map"
		if rng.Intn(2) == 0 {
			tb, err := NewTimeCachedBlacklist(time.Hour)
			if err != nil {
				t.Fatal(err)
			}
			bl = tb
			defer tb.(*TimeCachedBlacklist).tc.Done()
			blKind = "timecached"
		}
		// every RPC handed to the peer's outbound queue (SendRPC is traced after a successful push), by content
		var pushedMu sync.Mutex
		pushed := map[string]int{}
		st := &vfSendTracer{onSend: func(r *RPC, p peer.ID) {
			if p == hb.ID() {
				if b, err := r.RPC.Marshal(); err == nil {
					pushedMu.Lock()
					pushed[string(b)]++
					pushedMu.Unlock()
				}
			}
		}}
		psA, err := NewGossipSub(ctx, ha, WithRawTracer(st), WithGossipSubParams(gp), WithPeerScore(sp, th), WithPeerGater(gt), WithBlacklist(bl),
			WithMessageSignaturePolicy(StrictNoSign), WithMessageIdFn(vfMsgID), WithSeenMessagesTTL(3*time.Second))
		if err != nil {
			t.Fatal(err)
		}
		// a validator that can be made to hold messages in the validation pipeline
		var holdMu sync.Mutex
		hold := false
		gate := make(chan struct{})
		for tp := 0; tp < 2; tp++ {
			if tp == 1 && cfg.noVal1 {
				continue
			}
			if err := psA.RegisterTopicValidator(vfTopic(tp), func(ctx context.Context, _ peer.ID, _ *Message) ValidationResult {
				holdMu.Lock()
				h, g := hold, gate
				holdMu.Unlock()
				if h {
					select {
					case <-g:
					case <-ctx.Done():
					}
				}
				return ValidationAccept
			}, WithValidatorTimeout(time.Hour)); err != nil {
				t.Fatal(err)
			}
		}
		gs := psA.rt.(*GossipSubRouter)
		vfEval(psA, func() { gs.tagTracer.cmgr = cm })
		pb_ := hb.ID()
		m := &vfMock{t: t, h: hb, a: ha, proto: proto}
		m.install()
		// a third, well-behaved party that stays connected: used to relay messages naming B as their author
		mc := &vfMock{t: t, h: hc, a: ha, proto: GossipSubID_v11}
		mc.install()
		if err := hc.Connect(ctx, peer.AddrInfo{ID: ha.ID(), Addrs: ha.Addrs()}); err != nil {
			t.Fatal(err)
		}
		if s, err := hc.NewStream(ctx, ha.ID(), GossipSubID_v11); err == nil {
			mc.out = s
		}
		subs := map[int]*Subscription{}
		topics := map[int]*Topic{}
		topicOf := func(tp int) *Topic {
			if x, ok := topics[tp]; ok {
				return x
			}
			x, err := psA.Join(vfTopic(tp))
			if err != nil {
				t.Fatal(err)
			}
			topics[tp] = x
			return x
		}
		var recSteps []map[string]any
		nextMid := 100
		nLate := 0
		settle := func() {
			synctest.Wait()
			time.Sleep(20 * time.Millisecond) // let simulated packets in flight arrive
			synctest.Wait()
		}
		var lits []string
		apiBL := false
		lastRecv := 0
		var inflight map[string]int // set at BlacklistPeer: RPCs already handed to the writer and not yet received
		has := func(r []string, pfx string) bool {
			for _, x := range r {
				if x == pfx || strings.HasPrefix(x, pfx+":") {
					return true
				}
			}
			return false
		}
		pvLit := func(r []string) string {
			return fmt.Sprintf("(mk %v %v %v %v %v %v %v %v %v %v %v %v %v %v %v)", has(r, "queue"), has(r, "gs.peers") || has(r, "gs.outbound"), has(r, "inbound"), has(r, "topics"),
				has(r, "mesh"), has(r, "fanout"), has(r, "gossip") || has(r, "control"), has(r, "protect"), has(r, "ext.peer"), has(r, "ext.sent"),
				has(r, "gater"), has(r, "score") || has(r, "score-ips"), has(r, "backoff"), has(r, "peerhave") || has(r, "iasked") || has(r, "peerdontwant"),
				has(r, "promises") || has(r, "promises-by-id") || has(r, "unwanted")) // the IDONTWANT set has its own TTL
		}
		step := func(op string) {
			settle()
			res := vfResidue(psA, cm, pb_)
			// deliveries naming B as source or author
			nd := 0
			for _, sb := range subs {
				for {
					select {
					case msg, ok := <-sb.ch:
						if !ok {
							goto next
						}
						if msg.ReceivedFrom == pb_ || string(msg.GetFrom()) == string(pb_) {
							nd++
						}
						continue
					default:
					}
					break
				}
			next:
			}
			m.mu.Lock()
			fresh := m.recv[lastRecv:]
			nrecv := len(fresh)
			lastRecv = len(m.recv)
			m.mu.Unlock()
			if inflight != nil {
				// after BlacklistPeer only RPCs count that had not been handed to the peer's writer before the call: what was already
				// popped from the queue (in the writer's hands or in the transport) cannot be recalled
				nrecv = 0
				for _, r := range fresh {
					b, _ := r.Marshal()
					if inflight[string(b)] > 0 {
						inflight[string(b)]--
					} else {
						nrecv++
					}
				}
			}
			isBL := false
			vfEval(psA, func() { isBL = psA.blacklist.Contains(pb_) })
			lits = append(lits, fmt.Sprintf("{| lo_v := %s; lo_bl := %v; lo_sent := %d; lo_delivered := %d; lo_api := %v; lo_apinow := %v |}", pvLit(res), isBL, nrecv, nd, apiBL, op == "blacklist-api"))
			recSteps = append(recSteps, map[string]any{"op": op, "residue": res, "blacklisted": isBL, "rpcs_to_peer": nrecv, "delivered_from_peer": nd})
		}
		connected := func() bool { return hb.Network().Connectedness(ha.ID()) == network.Connected }
		blacklisted := false
		// scripted prefix: (selector, RPC kind, topic); -1 = random
		type forcedOp struct{ r, k, tp int }
		var script []forcedOp
		if cfg.script == 1 {
			// the second reset of the node's outbound stream makes it wait 100 ms before it tries again: the GRAFT lands in that window
			script = []forcedOp{{0, -1, -1}, {15, -1, -1}, {40, -1, 0}, {28, -1, -1}, {28, -1, -1}, {90, 2, 0}}
			if cfg.blacklistOps {
				script = append(script, forcedOp{57, -1, -1})
			}
		}
		if cfg.script == 3 && cfg.blacklistOps {
			// the peer stops reading, a backlog builds up in its outbound queue, BlacklistPeer, the peer reads again: what
			// was still queued at that moment must never be handed to the writer
			script = []forcedOp{{0, -1, -1}, {15, -1, -1}, {40, -1, 0}, {90, 0, 0}, {90, 2, 0}, {95, -1, -1}}
			for k := 0; k < 12; k++ {
				script = append(script, forcedOp{64, -1, 0})
			}
			script = append(script, forcedOp{57, -1, -1}, forcedOp{96, -1, -1}, forcedOp{54, -1, -1})
		}
		if cfg.script == 4 && cfg.blacklistOps {
			// both routes one after the other on a fully established peer: put into the blacklist directly, then BlacklistPeer
			script = []forcedOp{{0, -1, -1}, {15, -1, -1}, {40, -1, 0}, {90, 0, 0}, {90, 2, 0}, {58, -1, -1}, {57, -1, -1}, {54, -1, -1}}
		}
		if cfg.script == 6 && !cfg.blacklistOps {
			// the node's outbound stream to the (grafted) peer is reset five times while the connection stays up - once more than
			// the respawn backoff allows, so the node gives up re-opening it -, then the peer goes away for good
			script = []forcedOp{{0, -1, -1}, {15, -1, -1}, {40, -1, 0}, {90, 0, 0}, {90, 2, 0}}
			for k := 0; k < 5; k++ {
				script = append(script, forcedOp{28, -1, -1}, forcedOp{54, -1, -1})
			}
		}
		if cfg.script == 5 && cfg.blacklistOps {
			// a message from the peer (and one naming it as author, relayed by the third party) sits in the validation pipeline
			// when the peer is put into the blacklist DIRECTLY (its outbound queue stays): neither may come out delivered
			script = []forcedOp{{0, -1, -1}, {15, -1, -1}, {40, -1, 0}, {90, 0, 0}, {60, -1, -1}, {90, 7, 0}, {64, -1, 5}, {58, -1, -1}, {60, -1, -1}, {54, -1, -1}}
		}
		if cfg.script == 2 && cfg.blacklistOps {
			// the peer is put into the blacklist DIRECTLY while the node's outbound stream to it is in its retry delay; the
			// stream that completes afterwards must be refused
			script = []forcedOp{{0, -1, -1}, {15, -1, -1}, {40, -1, 0}, {28, -1, -1}, {28, -1, -1}, {58, -1, -1}, {54, -1, -1}, {54, -1, -1}}
		}
		var heldQ *rpcQueue
		heldQLen := 0
		forcedAPI := false
		forcedDirect := false
		for i := 0; i < nops; i++ {
			r := rng.Intn(100)
			if cfg.blacklistOps && rng.Intn(12) == 0 {
				r = 57 // a blacklisting (by either route) at this point of the lifecycle
			}
			fk, ftp := -1, -1
			if i < len(script) {
				r, fk, ftp = script[i].r, script[i].k, script[i].tp
				forcedAPI = r == 57
				forcedDirect = r == 58
			} else {
				forcedDirect = false
				forcedAPI = false
			}
			switch {
			case r == 95:
				m.mu.Lock()
				if m.pause == nil {
					m.pause = make(chan struct{})
				}
				m.mu.Unlock()
				step("peer-stops-reading")
			case r == 96:
				m.mu.Lock()
				if m.pause != nil {
					close(m.pause)
					m.pause = nil
				}
				m.mu.Unlock()
				step("peer-reads-again")
				if heldQ != nil {
					after := 0
					vfEval(psA, func() { after = heldQ.queue.Len() })
					if after < heldQLen {
						queueViol = map[string]any{"property": "C16", "code": 166, "key": "queued-rpcs-sent-after-blacklistpeer",
							"what": fmt.Sprintf("%d RPCs were still in the peer's outbound queue when BlacklistPeer was called; afterwards %d of them were taken out of the (closed) queue by its writer, i.e. sent to the blacklisted peer", heldQLen, heldQLen-after)}
					}
				}
			case r < 12:
				if connected() {
					continue
				}
				if err := hb.Connect(ctx, peer.AddrInfo{ID: ha.ID(), Addrs: ha.Addrs()}); err != nil {
					continue
				}
				step("connect")
			case r < 22:
				if !connected() || m.out != nil {
					continue
				}
				s, err := hb.NewStream(ctx, ha.ID(), proto)
				if err != nil {
					continue
				}
				m.out = s
				// the first message on a stream: like a real node, maybe a hello with subscriptions / extensions
				if rng.Intn(2) == 0 {
					tt := "t0"
					sb := true
					m.send(&pb.RPC{Subscriptions: []*pb.RPC_SubOpts{{Subscribe: &sb, Topicid: &tt}}})
				}
				step("open-out")
			case r < 27:
				if m.out == nil {
					continue
				}
				if rng.Intn(2) == 0 {
					m.out.Close()
					step("close-out")
				} else {
					m.out.Reset()
					step("reset-out")
				}
				m.out = nil
			case r < 32:
				m.mu.Lock()
				in := m.in
				m.in = nil
				m.mu.Unlock()
				if in == nil {
					continue
				}
				in.Reset()
				step("reset-in")
			case r < 37:
				if !connected() {
					continue
				}
				hb.Network().ClosePeer(ha.ID())
				m.out = nil
				m.mu.Lock()
				m.in = nil
				m.mu.Unlock()
				step("disconnect")
			case r < 45: // A subscribes / cancels
				tp := rng.Intn(2)
				if ftp >= 0 {
					tp = ftp
				}
				if s, ok := subs[tp]; ok {
					s.Cancel()
					delete(subs, tp)
					step(fmt.Sprintf("A-cancel %d", tp))
				} else {
					s, err := topicOf(tp).Subscribe()
					if err != nil {
						t.Fatal(err)
					}
					subs[tp] = s
					step(fmt.Sprintf("A-subscribe %d", tp))
				}
			case r < 52:
				vfEval(psA, func() { gs.heartbeat() })
				step("heartbeat")
			case r < 56:
				d := time.Duration(1+rng.Intn(3)) * time.Second
				time.Sleep(d)
				step(fmt.Sprintf("sleep %v", d))
			case r < 59 && cfg.blacklistOps:
				if forcedAPI || (!forcedDirect && rng.Intn(2) == 0) {
					vfEval(psA, func() {
						// in flight = pushed before the call, not yet received by the peer, and no longer in the queue
						pushedMu.Lock()
						inflight = map[string]int{}
						for k, v := range pushed {
							inflight[k] = v
						}
						pushedMu.Unlock()
						m.mu.Lock()
						for _, r := range m.recv {
							if b, err := r.Marshal(); err == nil && inflight[string(b)] > 0 {
								inflight[string(b)]--
							}
						}
						m.mu.Unlock()
						if q, ok := psA.peers[pb_]; ok {
							heldQ, heldQLen = q, q.queue.Len()
							q.queueMu.Lock()
							for _, r := range append(append([]*RPC{}, q.queue.priority...), q.queue.normal...) {
								if r == nil {
									continue
								}
								if b, err := r.RPC.Marshal(); err == nil && inflight[string(b)] > 0 {
									inflight[string(b)]--
								}
							}
							q.queueMu.Unlock()
						}
					})
					psA.BlacklistPeer(pb_)
					apiBL = true
					step("blacklist-api")
				} else {
					vfEval(psA, func() { psA.blacklist.Add(pb_) })
					step("blacklist-direct")
				}
				blacklisted = true
			case r < 62:
				holdMu.Lock()
				if hold {
					hold = false
					close(gate)
					holdMu.Unlock()
					step("release-validators")
				} else {
					hold = true
					gate = make(chan struct{})
					holdMu.Unlock()
					step("hold-validators")
				}
			case r < 66:
				if mc.out == nil {
					continue
				}
				tt := vfTopic(rng.Intn(2))
				if ftp == 5 {
					tt = vfTopic(0) // scripted: the topic that has the holding validator
				}
				id := nextMid
				nextMid++
				if cfg.script == 3 && fk == -1 && ftp == 0 {
					// a big message without author, so that it is forwarded to the (subscribed, grafted) peer
					tt = vfTopic(0)
					mc.send(&pb.RPC{Publish: []*pb.Message{{Data: []byte(fmt.Sprintf("%d:", id) + strings.Repeat("z", 200000)), Topic: &tt}}})
					step("third-party-publishes-a-big-message " + tt)
					continue
				}
				mc.send(&pb.RPC{Publish: []*pb.Message{{Data: []byte(fmt.Sprintf("%d:y", id)), Topic: &tt, From: []byte(pb_)}}})
				step("third-party-relays-message-authored-by-peer " + tt)
			default: // B sends something
				if m.out == nil {
					continue
				}
				tt := vfTopic(rng.Intn(2))
				tr := true
				fl := false
				var rpc *pb.RPC
				k := rng.Intn(9)
				if fk >= 0 {
					k, tt = fk, vfTopic(ftp)
				}
				switch k {
				case 0:
					rpc = &pb.RPC{Subscriptions: []*pb.RPC_SubOpts{{Subscribe: &tr, Topicid: &tt}}}
				case 1:
					rpc = &pb.RPC{Subscriptions: []*pb.RPC_SubOpts{{Subscribe: &fl, Topicid: &tt}}}
				case 2:
					rpc = &pb.RPC{Control: &pb.ControlMessage{Graft: []*pb.ControlGraft{{TopicID: &tt}}}}
				case 3:
					rpc = &pb.RPC{Control: &pb.ControlMessage{Prune: []*pb.ControlPrune{{TopicID: &tt}}}}
				case 4:
					rpc = &pb.RPC{Control: &pb.ControlMessage{Ihave: []*pb.ControlIHave{{TopicID: &tt, MessageIDs: []string{fmt.Sprint(9000 + rng.Intn(50))}}}}}
				case 5:
					rpc = &pb.RPC{Control: &pb.ControlMessage{Iwant: []*pb.ControlIWant{{MessageIDs: []string{"1", "2"}}}}}
				case 6:
					rpc = &pb.RPC{Control: &pb.ControlMessage{Idontwant: []*pb.ControlIDontWant{{MessageIDs: []string{fmt.Sprint(8000 + rng.Intn(50))}}}}}
				case 7:
					id := nextMid
					nextMid++
					rpc = &pb.RPC{Publish: []*pb.Message{{Data: []byte(fmt.Sprintf("%d:x", id)), Topic: &tt}}}
				case 8:
					rpc = &pb.RPC{Control: &pb.ControlMessage{Extensions: &pb.ControlExtensions{}}}
				}
				// "RPCs on a stream that outlives the other direction"
				m.mu.Lock()
				if m.in == nil {
					nLate++
				}
				m.mu.Unlock()
				m.send(rpc)
				step(fmt.Sprintf("send %d %s", k, tt))
			}
		}
		// final disconnect, then let every retention period pass with heartbeats and score / gater refreshes
		holdMu.Lock()
		if hold {
			hold = false
			close(gate)
		}
		holdMu.Unlock()
		m.mu.Lock()
		if m.pause != nil {
			close(m.pause)
			m.pause = nil
		}
		m.mu.Unlock()
		hb.Close() // gone for good: A cannot dial it again
		m.out = nil
		step("final-disconnect")
		for k := 0; k < 34; k++ {
			time.Sleep(500 * time.Millisecond)
			vfEval(psA, func() { gs.heartbeat() })
			synctest.Wait()
		}
		settle()
		finalResidue = vfResidue(psA, cm, pb_)
		recSteps = append(recSteps, map[string]any{"op": "after-retention", "residue": finalResidue})
		lit = fmt.Sprintf("{| lc_steps := [\n    %s];\n   lc_final := %s |}", strings.Join(lits, ";\n    "), pvLit(finalResidue))
		rec = map[string]any{"proto": string(proto), "blacklist_impl": blKind, "steps": recSteps, "blacklisted": blacklisted, "backlog_at_blacklistpeer": heldQLen}
		nontrivial = nLate > 0 && len(recSteps) > 10
		for _, s := range subs {
			s.Cancel()
		}
		cancel()
		settle()
	})
	return
}

func vfResidueLit(r []string) string {
	q := make([]string, len(r))
	for i, s := range r {
		q[i] = `"` + s + `"`
	}
	return "[" + strings.Join(q, "; ") + "]"
}


func TestVF_Life(t *testing.T) {
	cs := vfNewCases(t, "life", "From PS Require Import Model.Lifecycle Run.LifeRun.", "lcase", "check_lcase")
	cs.shard = 60
	rng := vfRng(13)
	ncases := vfN(120, 1200)
	wroteQV := false
	nBacklog := 0
	for c := 0; c < ncases; c++ {
		cfg := vfLifeCfg{blacklistOps: c%2 == 1, noVal1: (c/8)%2 == 0}
		if c%4 >= 2 {
			cfg.script = 1
		}
		if c%8 == 5 {
			cfg.script = 2
		}
		if c%8 == 1 {
			cfg.script = 3
		}
		if c%8 == 7 {
			cfg.script = 4
		}
		if c%16 == 11 {
			cfg.script = 5
		}
		if c%16 == 4 {
			cfg.script = 6
		}
		lit, rec, _, nt, qv := vfLifeHistory(t, rng, 30+rng.Intn(50), cfg)
		if qv != nil && !wroteQV {
			wroteQV = true
			qv["case"] = rec
			js, _ := json.MarshalIndent(qv, "", " ")
			os.WriteFile(filepath.Join(vfOutDir(t), "violation_life_queue.json"), js, 0o644)
		}
		if b, ok := rec["backlog_at_blacklistpeer"]; ok && b.(int) > 0 {
			nBacklog++
		}
		cs.add(lit, rec, nt)
		if cfg.blacklistOps {
			cs.kind("with-blacklisting")
		} else {
			cs.kind("plain")
		}
	}
	cs.extra["histories_with_a_backlog_at_blacklistpeer"] = nBacklog
	// the other two routers (and a gossipsub node whose peer is a direct peer): the inbound half of C16 on a topic without
	// validator - a message received from a blacklisted peer, or naming it as author, is not delivered
	if v, n := vfSimpleBlacklist(t, rng); v != nil {
		js, _ := json.MarshalIndent(v, "", " ")
		os.WriteFile(filepath.Join(vfOutDir(t), "violation_life_origin.json"), js, 0o644)
	} else {
		cs.extra["simple_router_blacklist_scenarios"] = n
	}
	cs.flush("random lifecycles of a remote peer over REAL streams against a real gossipsub node (scoring, gater, extensions, recording connection manager; protocol versions floodsub .. v1.3): connect, open / close / reset of either stream direction in any order, RPCs of every kind incl. on a stream that outlives the other direction, node-side subscribe / cancel / heartbeats, virtual time, disconnects followed by redials, a third party relaying messages that name the peer as author, a peer that stops reading while big messages are forwarded to it (a backlog in its outbound queue at the moment of BlacklistPeer), and (every other history) BlacklistPeer or direct insertion into a map / time-cached blacklist at a random point; after EVERY action every per-peer map of the node is inspected inside the event loop; at the end the peer's host is closed and 17 s with 34 heartbeats pass. " +
		"non-trivial = at least one RPC sent on the inbound stream while the outbound stream was down and more than 10 actions; distinct = hash of the observations")
}

// vfSimpleBlacklist: for floodsub, randomsub and gossipsub-with-a-direct-peer, both blacklist implementations and both routes:
// peer B (blacklisted) sends a message of its own, a message without author and a good peer C relays one naming B as author;
// nothing of it may reach the subscription.
func vfSimpleBlacklist(t *testing.T, rng *rand.Rand) (viol map[string]any, n int) {
	for router := 0; router < 3; router++ {
		for impl := 0; impl < 2; impl++ {
			for route := 0; route < 2; route++ {
				synctest.Test(t, func(t *testing.T) {
					ctx, cancel := context.WithCancel(context.Background())
					defer cancel()
					hs := vfHosts(t, 3)
					ha, hb, hc := hs[0], hs[1], hs[2]
					var bl Blacklist = NewMapBlacklist()
					if impl == 1 {
						tb, err := NewTimeCachedBlacklist(time.Hour)
						if err != nil {
							t.Fatal(err)
						}
						bl = tb
						defer tb.(*TimeCachedBlacklist).tc.Done()
					}
					opts := []Option{WithBlacklist(bl), WithMessageSignaturePolicy(StrictNoSign), WithMessageIdFn(vfMsgID)}
					var ps *PubSub
					var err error
					proto := FloodSubID
					switch router {
					case 0:
						ps, err = NewFloodSub(ctx, ha, opts...)
					case 1:
						ps, err = NewRandomSub(ctx, ha, 10, opts...)
					default:
						proto = GossipSubID_v11
						ps, err = NewGossipSub(ctx, ha, append(opts, WithDirectPeers([]peer.AddrInfo{{ID: hb.ID(), Addrs: hb.Addrs()}}))...)
					}
					if err != nil {
						t.Fatal(err)
					}
					sub, err := ps.Subscribe("t0")
					if err != nil {
						t.Fatal(err)
					}
					mb := &vfMock{t: t, h: hb, a: ha, proto: proto}
					mb.install()
					mc := &vfMock{t: t, h: hc, a: ha, proto: proto}
					mc.install()
					for _, m := range []*vfMock{mb, mc} {
						if err := m.h.Connect(ctx, peer.AddrInfo{ID: ha.ID(), Addrs: ha.Addrs()}); err != nil {
							t.Fatal(err)
						}
						if st, err := m.h.NewStream(ctx, ha.ID(), proto); err == nil {
							m.out = st
						}
					}
					time.Sleep(time.Second)
					if route == 0 {
						ps.BlacklistPeer(hb.ID())
					} else {
						vfEval(ps, func() { ps.blacklist.Add(hb.ID()) })
					}
					time.Sleep(200 * time.Millisecond)
					tt := "t0"
					mb.send(&pb.RPC{Publish: []*pb.Message{{Data: []byte("9101:own"), Topic: &tt, From: []byte(hb.ID())}}})
					mb.send(&pb.RPC{Publish: []*pb.Message{{Data: []byte("9102:anon"), Topic: &tt}}})
					mc.send(&pb.RPC{Publish: []*pb.Message{{Data: []byte("9103:relayed"), Topic: &tt, From: []byte(hb.ID())}}})
					mc.send(&pb.RPC{Publish: []*pb.Message{{Data: []byte("9104:good"), Topic: &tt}}})
					time.Sleep(time.Second)
					synctest.Wait()
					good := false
					for {
						select {
						case m := <-sub.ch:
							if string(m.Data) == "9104:good" {
								good = true
							} else if viol == nil {
								viol = map[string]any{"property": "C16", "code": 167, "key": "delivered-from-blacklisted-peer",
									"what": fmt.Sprintf("a message received from (or naming as author) a blacklisted peer was delivered to the subscription: %q, received from the blacklisted peer: %v", m.Data, m.ReceivedFrom == hb.ID()),
									"router": []string{"floodsub", "randomsub", "gossipsub, the peer is a direct peer"}[router], "blacklist_impl": []string{"map", "timecached"}[impl],
									"route": []string{"BlacklistPeer", "inserted into the blacklist directly"}[route]}
							}
							continue
						default:
						}
						break
					}
					if !good && viol == nil {
						t.Logf("control message of the good peer not delivered (router %d)", router)
					}
					n++
					sub.Cancel()
					cancel()
					for _, h := range hs {
						h.Close()
					}
					time.Sleep(3 * time.Second)
					synctest.Wait()
				})
			}
		}
	}
	_ = rng
	return
}

type vfSendTracer struct {
	vfNopTracer
	onSend func(*RPC, peer.ID)
}

func (s *vfSendTracer) SendRPC(r *RPC, p peer.ID) { s.onSend(r, p) }
