//go:build verif

package pubsub

import (
	"context"
	"fmt"
	"math/rand"
	"sort"
	"strings"
	"testing"
	"testing/synctest"

	pb "github.com/libp2p/go-libp2p-pubsub/pb"
	"github.com/libp2p/go-libp2p/core/peer"
	"github.com/libp2p/go-libp2p/core/protocol"
)

// Floodsub and randomsub nodes with fake peers (C06 for the two simple routers, C19 under them): after every
// operation the recipients of the message and the events an attached tracer received are recorded.

func vfSimpleHistory(t *testing.T, rng *rand.Rand, randsub bool, nops int) (lit string, rec map[string]any, nontrivial bool) {
	synctest.Test(t, func(t *testing.T) {
		ctx, cancel := context.WithCancel(context.Background())
		defer cancel()
		h := vfHosts(t, 1)[0]
		np := 6 + rng.Intn(9)
		size := []int{1, 10, 40, 64, 70, 100, 150}[rng.Intn(7)]
		pids := vfPeerIDs(np)
		ev := &vfEvTracer{}
		opts := []Option{WithEventTracer(ev), WithMessageSignaturePolicy(StrictNoSign), WithMessageIdFn(vfMsgID)}
		var ps *PubSub
		var err error
		if randsub {
			ps, err = NewRandomSub(ctx, h, size, opts...)
		} else {
			ps, err = NewFloodSub(ctx, h, opts...)
		}
		if err != nil {
			t.Fatal(err)
		}
		gn := &vfGNode{vfRNode: &vfRNode{pids: pids}}
		connected := map[int]bool{}
		topics := map[int]*Topic{}
		subs := map[int]*Subscription{}
		ntopics := 2
		nextMid := 100
		var seenIDs []int
		var steps []string
		var recSteps []map[string]any
		nSel := 0
		topicOf := func(tp int) *Topic {
			if x, ok := topics[tp]; ok {
				return x
			}
			x, err := ps.Join(vfTopic(tp))
			if err != nil {
				t.Fatal(err)
			}
			topics[tp] = x
			return x
		}
		emit := func(op string) {
			var out, rp []int
			vfEval(ps, func() {
				for i, p := range pids {
					q, ok := ps.peers[p]
					if !ok {
						continue
					}
					for q.queue.Len() > 0 {
						c, cc := context.WithCancel(context.Background())
						cc()
						r, err := q.Pop(c)
						if err != nil {
							break
						}
						rp = append(rp, i)
						for range r.Publish {
							out = append(out, i)
						}
					}
				}
			})
			sort.Ints(out)
			tl := gn.traceLits(ev.take())
			steps = append(steps, fmt.Sprintf("{| sp_op := %s; sp_out := %s; sp_rpcs := %s; sp_trace := [%s] |}", op, vfNats(out), vfNats(rp), strings.Join(tl, "; ")))
			recSteps = append(recSteps, map[string]any{"op": op, "out": out, "trace": tl})
		}
		msgLit := func(id, tp int, from, author string) string {
			return fmt.Sprintf("{| sm_id := %d; sm_topic := %d; sm_from := %s; sm_author := %s |}", id, tp, from, author)
		}
		for i := 0; i < nops; i++ {
			r := rng.Intn(100)
			switch {
			case r < 18 || len(connected) < 3:
				p := rng.Intn(np)
				if connected[p] {
					continue
				}
				fsonly := rng.Intn(3) == 0
				proto := protocol.ID(RandomSubID)
				if fsonly || !randsub {
					proto = FloodSubID
				}
				vfEval(ps, func() {
					ps.peers[pids[p]] = newRpcQueue(4096)
					ps.rt.OnNewOutboundStream(pids[p], proto, nil)
				})
				connected[p] = true
				emit(fmt.Sprintf("RAddPeer %d %v", p, proto == FloodSubID && randsub))
				for tp := 0; tp < ntopics; tp++ {
					if rng.Intn(4) != 0 {
						s := true
						ts := vfTopic(tp)
						vfEval(ps, func() {
							ps.handleIncomingRPC(&RPC{RPC: pb.RPC{Subscriptions: []*pb.RPC_SubOpts{{Subscribe: &s, Topicid: &ts}}}, from: pids[p]})
						})
						emit(fmt.Sprintf("RSub %d %d", p, tp))
					}
				}
			case r < 23:
				p := rng.Intn(np)
				if !connected[p] {
					continue
				}
				vfEval(ps, func() {
					if q, ok := ps.peers[pids[p]]; ok {
						q.Close()
						delete(ps.peers, pids[p])
					}
					ps.clearPeerFromTopicsState(pids[p])
					ps.rt.OnClosedOutboundStream(pids[p])
				})
				delete(connected, p)
				emit(fmt.Sprintf("RRemovePeer %d", p))
			case r < 30:
				p, tp := rng.Intn(np), rng.Intn(ntopics)
				if !connected[p] {
					continue
				}
				s := rng.Intn(2) == 0
				ts := vfTopic(tp)
				vfEval(ps, func() {
					ps.handleIncomingRPC(&RPC{RPC: pb.RPC{Subscriptions: []*pb.RPC_SubOpts{{Subscribe: &s, Topicid: &ts}}}, from: pids[p]})
				})
				if s {
					emit(fmt.Sprintf("RSub %d %d", p, tp))
				} else {
					emit(fmt.Sprintf("RUnsub %d %d", p, tp))
				}
			case r < 42:
				tp := rng.Intn(ntopics)
				if _, ok := subs[tp]; !ok {
					sub, err := topicOf(tp).Subscribe()
					if err != nil {
						t.Fatal(err)
					}
					synctest.Wait()
					vfEval(ps, func() {})
					subs[tp] = sub
					emit(fmt.Sprintf("RJoin %d", tp))
				} else {
					subs[tp].Cancel()
					synctest.Wait()
					if rng.Intn(2) == 0 {
						subs[tp].Cancel() // cancelling twice is harmless: one LEAVE only
						synctest.Wait()
					}
					vfEval(ps, func() {})
					delete(subs, tp)
					emit(fmt.Sprintf("RLeave %d", tp))
				}
			default:
				tp := rng.Intn(ntopics)
				id := nextMid
				if len(seenIDs) > 0 && rng.Intn(8) == 0 {
					id = seenIDs[rng.Intn(len(seenIDs))]
				} else {
					nextMid++
					seenIDs = append(seenIDs, id)
				}
				data := []byte(fmt.Sprintf("%d:payload", id))
				ts := vfTopic(tp)
				from, author := "None", "None"
				if rng.Intn(10) == 0 {
					// a local-only publication: for the in-process subscribers, never for the router
					if err := topicOf(tp).Publish(ctx, data, WithLocalPublication(true)); err != nil {
						t.Fatal(err)
					}
					synctest.Wait()
					vfEval(ps, func() {})
					for _, s := range subs {
						vfDrainSub(s)
					}
					emit(fmt.Sprintf("RLocalOnly %s", msgLit(id, tp, from, author)))
					continue
				}
				if rng.Intn(2) == 0 {
					if err := topicOf(tp).Publish(ctx, data); err != nil {
						t.Fatal(err)
					}
				} else {
					p := rng.Intn(np)
					if !connected[p] {
						continue
					}
					m := &pb.Message{Data: data, Topic: &ts}
					if rng.Intn(3) == 0 {
						a := rng.Intn(np)
						m.From = []byte(pids[a])
						author = fmt.Sprintf("(Some %d)", a)
					}
					from = fmt.Sprintf("(Some %d)", p)
					vfEval(ps, func() { ps.handleIncomingRPC(&RPC{RPC: pb.RPC{Publish: []*pb.Message{m}}, from: pids[p]}) })
				}
				synctest.Wait()
				vfEval(ps, func() {})
				for _, s := range subs {
					vfDrainSub(s)
				}
				// the random selection of randomsub is read off the queues: the randomsub-protocol recipients
				var out []int
				var chosen []int
				vfEval(ps, func() {
					for i, p := range pids {
						if q, ok := ps.peers[p]; ok && q.queue.Len() > 0 {
							out = append(out, i)
						}
					}
					if rs, ok := ps.rt.(*RandomSubRouter); ok {
						nrs := 0
						tpeers := ps.topics[ts]
						for p := range tpeers {
							if rs.peers[p] != FloodSubID && fmt.Sprintf("(Some %d)", gn.vfRNode.idxOf(p)) != from && fmt.Sprintf("(Some %d)", gn.vfRNode.idxOf(p)) != author {
								nrs++
							}
						}
						if nrs > RandomSubD {
							for _, i := range out {
								if rs.peers[pids[i]] != FloodSubID {
									chosen = append(chosen, i)
								}
							}
							if len(out) > 0 {
								nSel++
							}
						}
					}
				})
				emit(fmt.Sprintf("RMsg %s %s", msgLit(id, tp, from, author), vfNats(chosen)))
			}
		}
		lit = fmt.Sprintf("{| sr_rand := %v; sr_size := %d;\n   sr_steps := [\n    %s] |}", randsub, size, strings.Join(steps, ";\n    "))
		rec = map[string]any{"randomsub": randsub, "size": size, "peers": np, "steps": recSteps}
		nontrivial = len(steps) > 10 && (!randsub || nSel > 0)
		for _, s := range subs {
			s.Cancel()
		}
		cancel()
		synctest.Wait()
	})
	return
}

func (n *vfRNode) idxOf(p peer.ID) int {
	for i, q := range n.pids {
		if q == p {
			return i
		}
	}
	return 999
}

func TestVF_Simple(t *testing.T) {
	cs := vfNewCases(t, "simple", "From PS Require Import Model.Router Model.Trace Model.SimpleRouters Run.SimpleRun.", "srcase", "check_srcase")
	cs.shard = 60
	rng := vfRng(6)
	ncases := vfN(120, 1500)
	for c := 0; c < ncases; c++ {
		randsub := c%2 == 1
		lit, rec, nt := vfSimpleHistory(t, rng, randsub, 40+rng.Intn(50))
		cs.add(lit, rec, nt)
		if randsub {
			cs.kind("randomsub")
		} else {
			cs.kind("floodsub")
		}
	}
	cs.flush("random histories on real floodsub and randomsub nodes with fake peers (floodsub-only and randomsub peers, network-size estimates 1..150): peer arrivals and departures, subscription announcements, Subscribe / Cancel (also twice) through the API, local publications and messages from peers with and without an author, duplicates; after every operation the full recipient set (read off the outbound queues) and the events an attached EventTracer received are compared with the model; " +
		"non-trivial = more than 10 steps and, for randomsub, at least one message for which more than RandomSubD randomsub peers were eligible (a random selection happened); distinct = hash of the history")
}
