//go:build verif

package pubsub

import (
	"context"
	"encoding/binary"
	"encoding/json"
	"fmt"
	"io"
	"log/slog"
	"math/rand"
	"os"
	"path/filepath"
	"strings"
	"testing"
	"testing/synctest"
	"time"

	pb "github.com/libp2p/go-libp2p-pubsub/pb"
	"github.com/libp2p/go-libp2p/core/host"
	"github.com/libp2p/go-libp2p/core/network"
	"github.com/libp2p/go-libp2p/core/peer"
	"github.com/libp2p/go-libp2p/core/protocol"
	"github.com/libp2p/go-libp2p/core/record"
	"github.com/libp2p/go-libp2p/core/crypto"
	ma "github.com/multiformats/go-multiaddr"
)

// C12 part 1: arbitrary BYTES on an inbound pubsub stream of a real node (small max message size), compared
// with Model/Frame.v: how many RPCs reach the event loop and whether the stream is reset or closed politely.
// C12 part 2: well-formed but hostile RPCs (adversarial field values) against a node with every built-in
// validator and extension enabled; after each one the event loop must answer and an honest peer's message
// must still be delivered.

// router: 0 gossipsub (scoring, peer exchange, extensions), 1 floodsub, 2 randomsub
func vfHostileNodeR(t *testing.T, ctx context.Context, h host.Host, max int, count *int, router int) *PubSub {
	if router == 0 {
		return vfHostileNode(t, ctx, h, max, count)
	}
	opts := []Option{WithMaxMessageSize(max), WithMessageSignaturePolicy(LaxNoSign), WithDefaultValidator(NewBasicSeqnoValidator(vfMemMeta{}, slog.Default())),
		WithAppSpecificRpcInspector(func(peer.ID, *RPC) error { *count++; return nil })}
	var ps *PubSub
	var err error
	if router == 1 {
		ps, err = NewFloodSub(ctx, h, opts...)
	} else {
		ps, err = NewRandomSub(ctx, h, 150, opts...) // a large size estimate: the fan-out target is sqrt(150) = 13
	}
	if err != nil {
		t.Fatal(err)
	}
	return ps
}

func vfHostileNode(t *testing.T, ctx context.Context, h host.Host, max int, count *int) *PubSub {
	gp := DefaultGossipSubParams()
	gp.MaxIHaveLength, gp.MaxIHaveMessages = 5, 3 // small budgets so that boundary values are hit
	sp := &PeerScoreParams{AppSpecificScore: func(peer.ID) float64 { return 0 }, DecayInterval: time.Second, DecayToZero: 0.01,
		Topics: map[string]*TopicScoreParams{"t0": {TopicWeight: 1, TimeInMeshQuantum: time.Second, InvalidMessageDeliveriesWeight: -0.01, InvalidMessageDeliveriesDecay: 0.5}}}
	th := &PeerScoreThresholds{GossipThreshold: -1000, PublishThreshold: -2000, GraylistThreshold: -3000, AcceptPXThreshold: 0, OpportunisticGraftThreshold: 1}
	ps, err := NewGossipSub(ctx, h, WithGossipSubParams(gp), WithPeerScore(sp, th), WithMaxMessageSize(max), WithPeerExchange(true),
		WithMessageSignaturePolicy(LaxNoSign), WithDefaultValidator(NewBasicSeqnoValidator(vfMemMeta{}, slog.Default())),
		WithAppSpecificRpcInspector(func(peer.ID, *RPC) error { *count++; return nil }))
	if err != nil {
		t.Fatal(err)
	}
	return ps
}

type vfMemMeta map[peer.ID][]byte

func (m vfMemMeta) Get(_ context.Context, p peer.ID) ([]byte, error) { return m[p], nil }
func (m vfMemMeta) Put(_ context.Context, p peer.ID, v []byte) error { m[p] = v; return nil }

func vfUvarint(x uint64) []byte {
	b := make([]byte, 10)
	return b[:binary.PutUvarint(b, x)]
}

func TestVF_Frames(t *testing.T) {
	cs := vfNewCases(t, "frames", "From Coq Require Import NArith.\nFrom PS Require Import Model.Frame Run.FrameRun.", "fcase", "check_fcase")
	cs.shard = 80
	rng := vfRng(12)
	ncases := vfN(240, 3000)
	synctest.Test(t, func(t *testing.T) {
		ctx, cancel := context.WithCancel(context.Background())
		defer cancel()
		hosts := vfHosts(t, 2)
		const max = 24
		count := 0
		psA := vfHostileNode(t, ctx, hosts[0], max, &count)
		_ = psA
		hb := hosts[1]
		hb.SetStreamHandler(GossipSubID_v12, func(s network.Stream) { io.Copy(io.Discard, s) })
		if err := hb.Connect(ctx, peer.AddrInfo{ID: hosts[0].ID(), Addrs: hosts[0].Addrs()}); err != nil {
			t.Fatal(err)
		}
		time.Sleep(100 * time.Millisecond)
		tr := true
		payloads := func() []byte {
			var r *pb.RPC
			switch rng.Intn(5) {
			case 0:
				tt := "t0"
				r = &pb.RPC{Subscriptions: []*pb.RPC_SubOpts{{Subscribe: &tr, Topicid: &tt}}}
			case 1:
				tt := "t"
				r = &pb.RPC{Control: &pb.ControlMessage{Graft: []*pb.ControlGraft{{TopicID: &tt}}}}
			case 2:
				r = &pb.RPC{Control: &pb.ControlMessage{Iwant: []*pb.ControlIWant{{MessageIDs: []string{"a"}}}}}
			case 3:
				r = &pb.RPC{}
			default:
				b := make([]byte, 1+rng.Intn(12))
				rng.Read(b)
				return b
			}
			b, _ := r.Marshal()
			return b
		}
		for c := 0; c < ncases; c++ {
			var bs []byte
			var kinds []string
			for len(bs) < 40 && rng.Intn(6) != 0 {
				switch k := rng.Intn(10); {
				case k < 4:
					p := payloads()
					bs = append(bs, vfUvarint(uint64(len(p)))...)
					bs = append(bs, p...)
					kinds = append(kinds, "frame")
				case k < 5:
					bs = append(bs, 0)
					kinds = append(kinds, "empty-frame")
				case k < 6:
					bs = append(bs, vfUvarint(uint64(max+1+rng.Intn(200)))...)
					bs = append(bs, make([]byte, rng.Intn(6))...)
					kinds = append(kinds, "oversize")
				case k < 7:
					bs = append(bs, 0x80|byte(rng.Intn(128)), 0x00) // not minimal
					kinds = append(kinds, "non-minimal")
				case k < 8:
					for i := 0; i < 9+rng.Intn(3); i++ {
						bs = append(bs, 0xff)
					}
					kinds = append(kinds, "overflow")
				case k < 9:
					p := payloads()
					bs = append(bs, vfUvarint(uint64(len(p)+1+rng.Intn(5)))...)
					bs = append(bs, p...)
					kinds = append(kinds, "truncated")
				default:
					g := make([]byte, 1+rng.Intn(6))
					rng.Read(g)
					bs = append(bs, g...)
					kinds = append(kinds, "garbage")
				}
			}
			for _, k := range kinds {
				cs.kind(k)
			}
			// oracle: which substrings (length <= max) unmarshal as an RPC
			var dec []string
			for st := 0; st < len(bs); st++ {
				for ln := 1; ln <= max && st+ln <= len(bs); ln++ {
					if new(RPC).Unmarshal(bs[st:st+ln]) == nil {
						dec = append(dec, fmt.Sprintf("(%d, %d)", st, ln))
					}
				}
			}
			before := count
			s, err := hb.NewStream(ctx, hosts[0].ID(), GossipSubID_v12)
			if err != nil {
				t.Fatal(err)
			}
			if len(bs) > 0 {
				if _, err := s.Write(bs); err != nil {
					t.Fatal(err)
				}
			}
			s.CloseWrite()
			synctest.Wait()
			time.Sleep(50 * time.Millisecond)
			synctest.Wait()
			buf := make([]byte, 1)
			s.SetReadDeadline(time.Now().Add(time.Second))
			_, rerr := s.Read(buf)
			reset := rerr != io.EOF
			s.Reset()
			var bl []string
			for _, b := range bs {
				bl = append(bl, fmt.Sprint(b))
			}
			lit := fmt.Sprintf("{| fc_max := %d; fc_bytes := [%s]%%N; fc_decodable := [%s]%%nat; fc_delivered := %d%%nat; fc_reset := %v |}",
				max, strings.Join(bl, "; "), strings.Join(dec, "; "), count-before, reset)
			cs.add(lit, map[string]any{"bytes_hex": fmt.Sprintf("%x", bs), "parts": kinds, "delivered": count - before, "reset": reset, "read_err": fmt.Sprint(rerr)}, len(kinds) > 1)
		}
	})
	cs.flush("byte streams assembled from valid frames (real RPC encodings and random payloads), empty frames, length prefixes above the limit, non-minimal and overflowing varints, truncated frames and garbage, written to a fresh inbound stream of a real node (max message size 24) and half-closed; the number of RPCs that reach the event loop (counted by an RPC inspector) and the way the node ends the stream (reset vs polite close, seen from the remote side) are compared with the reader model, whose decode oracle is the real unmarshaller applied to every substring; " +
		"non-trivial = at least two parts; distinct = hash of the bytes")
}

func vfHostileRPC(rng *rand.Rand, victimTopics []string) *pb.RPC {
	r := vfGenRPC(rng, 1+rng.Intn(3))
	str := func() string {
		switch rng.Intn(6) {
		case 0:
			return ""
		case 1:
			return strings.Repeat("x", 200+rng.Intn(400))
		case 2:
			return victimTopics[rng.Intn(len(victimTopics))]
		case 3:
			return "unknown-topic"
		default:
			return fmt.Sprint(rng.Intn(1000))
		}
	}
	for _, m := range r.Publish {
		// most messages are in a topic the victim is subscribed to and are unsigned (accepted by the lax policy), so that
		// the adversarial field reaches the validators; random content keeps the message ids apart
		if rng.Intn(4) != 0 {
			t := victimTopics[rng.Intn(len(victimTopics))]
			m.Topic = &t
			m.Signature, m.Key = nil, nil
			m.Data = []byte(fmt.Sprintf("h%d", rng.Int63()))
			if rng.Intn(2) == 0 {
				m.Seqno = make([]byte, 8)
				rng.Read(m.Seqno)
			}
		}
		switch rng.Intn(8) {
		case 0:
			m.Seqno = make([]byte, rng.Intn(8)) // wrong length
			rng.Read(m.Seqno)
		case 1:
			m.Seqno = make([]byte, 9+rng.Intn(4))
			rng.Read(m.Seqno)
		case 2:
			m.From = []byte("not-a-peer-id")
		case 3:
			m.Topic = nil
		case 4:
			t := str()
			m.Topic = &t
		case 5:
			m.Signature, m.Key = []byte{1, 2, 3}, []byte{4, 5}
		}
	}
	if r.Control == nil && rng.Intn(2) == 0 {
		r.Control = &pb.ControlMessage{}
	}
	if c := r.Control; c != nil {
		for i := rng.Intn(3); i > 0; i-- {
			t := str()
			var ids []string
			for k := rng.Intn(9); k > 0; k-- { // around MaxIHaveLength = 5
				ids = append(ids, fmt.Sprint(rng.Intn(100000)))
			}
			c.Ihave = append(c.Ihave, &pb.ControlIHave{TopicID: &t, MessageIDs: ids})
		}
		for i := rng.Intn(3); i > 0; i-- {
			t := str()
			pr := &pb.ControlPrune{TopicID: &t}
			if rng.Intn(2) == 0 {
				b := uint64(rng.Int63())
				pr.Backoff = &b
			}
			for k := rng.Intn(3); k > 0; k-- {
				pi := &pb.PeerInfo{}
				switch rng.Intn(3) {
				case 0:
					pi.PeerID = []byte("bogus")
				case 1:
					pi.PeerID = []byte(peer.ID("12D3KooWbogus"))
					pi.SignedPeerRecord = []byte{1, 2, 3, 4}
				}
				pr.Peers = append(pr.Peers, pi)
			}
			c.Prune = append(c.Prune, pr)
		}
		for i := rng.Intn(3); i > 0; i-- {
			t := str()
			c.Graft = append(c.Graft, &pb.ControlGraft{TopicID: &t})
		}
		if rng.Intn(4) == 0 {
			c.Graft = append(c.Graft, &pb.ControlGraft{})
			c.Prune = append(c.Prune, &pb.ControlPrune{})
			c.Ihave = append(c.Ihave, &pb.ControlIHave{})
			c.Iwant = append(c.Iwant, &pb.ControlIWant{})
			c.Idontwant = append(c.Idontwant, &pb.ControlIDontWant{})
		}
	}
	return r
}

func TestVF_Hostile(t *testing.T) {
	cs := vfNewCases(t, "hostile", "From PS Require Import Run.Verdict.", "nat", "(fun _ => VOk)")
	rng := vfRng(120)
	nrpcAll := vfN(1500, 20000)
	outDir := vfOutDir(t)
	var viol map[string]any
	total := 0
	for router := 0; router < 3 && viol == nil; router++ {
	nrpc := nrpcAll
	if router > 0 {
		nrpc = nrpcAll / 3
	}
	total += nrpc
	synctest.Test(t, func(t *testing.T) {
		ctx, cancel := context.WithCancel(context.Background())
		defer cancel()
		hosts := vfHosts(t, 6)
		count := 0
		psA := vfHostileNodeR(t, ctx, hosts[0], 1<<20, &count, router)
		var subs []*Subscription
		for _, tn := range []string{"t0", "t1"} {
			tp, err := psA.Join(tn)
			if err != nil {
				t.Fatal(err)
			}
			s, err := tp.Subscribe()
			if err != nil {
				t.Fatal(err)
			}
			subs = append(subs, s)
		}
		if router == 2 {
			// "any number of peers": a dozen more randomsub peers, nine of them in the topic (more than RandomSubD, fewer than
			// the fan-out target)
			extra := vfPeerIDs(12)
			vfEval(psA, func() {
				for k, p := range extra {
					psA.peers[p] = newRpcQueue(1 << 16)
					psA.rt.OnNewOutboundStream(p, RandomSubID, nil)
					if k < 9 {
						sv := true
						for _, tn := range []string{"t0", "t1"} {
							tn := tn
							psA.handleIncomingRPC(&RPC{RPC: pb.RPC{Subscriptions: []*pb.RPC_SubOpts{{Subscribe: &sv, Topicid: &tn}}}, from: p})
						}
					}
				}
			})
		}
		if router == 0 {
			// "any number of peers": a dozen peers subscribe and GRAFT until the mesh is at Dhi, each then sends one message with a
			// bogus signature (rejected: its score turns negative), and heartbeats run with the whole mesh below zero
			js, _ := json.Marshal(map[string]any{"scenario": "twelve peers SUBSCRIBE and GRAFT t0 (mesh at Dhi), each sends one message with an invalid signature, then two heartbeats"})
			os.WriteFile(filepath.Join(outDir, "c12_last_input.json"), js, 0o644)
			sybils := vfPeerIDs(32)[20:32]
			tn := "t0"
			sv := true
			vfEval(psA, func() {
				for _, p := range sybils {
					psA.peers[p] = newRpcQueue(1 << 12)
					psA.rt.OnNewOutboundStream(p, GossipSubID_v11, nil)
					psA.handleIncomingRPC(&RPC{RPC: pb.RPC{Subscriptions: []*pb.RPC_SubOpts{{Subscribe: &sv, Topicid: &tn}},
						Control: &pb.ControlMessage{Graft: []*pb.ControlGraft{{TopicID: &tn}}}}, from: p})
				}
			})
			for k, p := range sybils {
				p := p
				m := &pb.Message{Data: []byte(fmt.Sprintf("sybil-%d", k)), Topic: &tn, From: []byte(p), Seqno: []byte{0, 0, 0, 0, 0, 0, 0, byte(k + 1)}, Signature: []byte("not a signature")}
				vfEval(psA, func() { psA.handleIncomingRPC(&RPC{RPC: pb.RPC{Publish: []*pb.Message{m}}, from: p}) })
			}
			synctest.Wait()
			time.Sleep(2500 * time.Millisecond) // two heartbeats
			synctest.Wait()
			vfEval(psA, func() {
				for _, p := range sybils {
					if q, ok := psA.peers[p]; ok {
						q.Close()
						delete(psA.peers, p)
					}
					psA.clearPeerFromTopicsState(p)
					psA.rt.OnClosedOutboundStream(p)
				}
			})
			cs.kind("sybil-mesh-turns-negative")
		}
		// an honest node
		psH, err := NewGossipSub(ctx, hosts[3], WithMessageSignaturePolicy(LaxNoSign))
		if err != nil {
			t.Fatal(err)
		}
		tH, _ := psH.Join("t0")
		if err := hosts[3].Connect(ctx, peer.AddrInfo{ID: hosts[0].ID(), Addrs: hosts[0].Addrs()}); err != nil {
			t.Fatal(err)
		}
		// hostile peers of different protocol versions
		protos := []protocol.ID{GossipSubID_v13, GossipSubID_v11, FloodSubID}
		if router == 1 {
			protos = []protocol.ID{FloodSubID, FloodSubID, FloodSubID}
		}
		if router == 2 {
			protos = []protocol.ID{RandomSubID, FloodSubID, FloodSubID}
		}
		var mocks []*vfMock
		for i, pr := range protos {
			m := &vfMock{t: t, h: hosts[1+i%2], a: hosts[0], proto: pr}
			if i < 2 {
				m.install()
				if err := m.h.Connect(ctx, peer.AddrInfo{ID: hosts[0].ID(), Addrs: hosts[0].Addrs()}); err != nil {
					t.Fatal(err)
				}
			}
			mocks = append(mocks, m)
		}
		// a stranger: a connected host that speaks the protocol towards the node but accepts none of the node's streams, so the
		// node has no outbound queue, no router entry and no score record for it ("RPCs from unknown peers")
		stranger := &vfMock{t: t, h: hosts[5], a: hosts[0], proto: protos[0]}
		if err := stranger.h.Connect(ctx, peer.AddrInfo{ID: hosts[0].ID(), Addrs: hosts[0].Addrs()}); err != nil {
			t.Fatal(err)
		}
		time.Sleep(2 * time.Second)
		open := func(m *vfMock) {
			if s, err := m.h.NewStream(ctx, hosts[0].ID(), m.proto); err == nil {
				m.out = s
			}
		}
		for _, m := range mocks[:2] {
			open(m)
		}
		probe := func(i int, what string, rpc *pb.RPC) bool {
			// the event loop answers
			ok := make(chan struct{})
			go func() { psA.ListPeers("t0"); close(ok) }()
			select {
			case <-ok:
			case <-time.After(10 * time.Second):
				if viol == nil {
					js, _ := json.Marshal(rpc)
					viol = map[string]any{"property": "C12", "code": 122, "key": "event-loop-stalled", "what": "the event loop did not answer within 10 virtual seconds after " + what, "rpc": string(js), "index": i}
				}
				return false
			}
			return true
		}
		// a peer in good standing (it sends nothing else) whose PRUNEs carry many VALIDLY signed peer-exchange records for
		// addresses nobody listens on: more candidates than the connectors and their queue can take
		pxm := &vfMock{t: t, h: hosts[4], a: hosts[0], proto: GossipSubID_v11}
		pxm.install()
		if err := pxm.h.Connect(ctx, peer.AddrInfo{ID: hosts[0].ID(), Addrs: hosts[0].Addrs()}); err != nil {
			t.Fatal(err)
		}
		time.Sleep(time.Second)
		open(pxm)
		nflood := 0
		pxFlood := func(i int) bool {
			if pxm.out == nil {
				open(pxm)
			}
			var prunes []*pb.ControlPrune
			for k := 0; k < 40; k++ {
				tn := []string{"t0", "t1"}[k%2]
				pr := &pb.ControlPrune{TopicID: &tn}
				for j := 0; j < 16; j++ {
					priv, _, _ := crypto.GenerateEd25519Key(rng)
					id, _ := peer.IDFromPrivateKey(priv)
					a, _ := ma.NewMultiaddr(fmt.Sprintf("/ip4/1.%d.%d.%d/udp/8000/quic-v1", 200+nflood%50, k, j))
					env, err := record.Seal(&peer.PeerRecord{PeerID: id, Addrs: []ma.Multiaddr{a}, Seq: 1}, priv)
					if err != nil {
						t.Fatal(err)
					}
					raw, _ := env.Marshal()
					pr.Peers = append(pr.Peers, &pb.PeerInfo{PeerID: []byte(id), SignedPeerRecord: raw})
				}
				prunes = append(prunes, pr)
			}
			nflood++
			rpc := &pb.RPC{Control: &pb.ControlMessage{Prune: prunes}}
			short := &pb.RPC{Control: &pb.ControlMessage{Prune: prunes[:1]}}
			js, _ := json.Marshal(short)
			os.WriteFile(filepath.Join(outDir, "c12_last_input.json"), js, 0o644)
			if !pxm.send(rpc) {
				pxm.out = nil
				return true
			}
			cs.kind("px-flood")
			synctest.Wait()
			return probe(i, "one RPC with 40 PRUNEs of 16 validly signed peer-exchange records each for unreachable addresses (only the first PRUNE is kept in this replay)", short)
		}
		delivered := 0
		for i := 0; i < nrpc; i++ {
			if router == 0 && i%500 == 250 && nflood < 4 { // every flood leaves hundreds of dial attempts behind: a handful is enough
				if !pxFlood(i) {
					break
				}
			}
			m := mocks[rng.Intn(2)]
			if rng.Intn(5) == 0 {
				m = stranger
			}
			if m.out == nil {
				open(m)
			}
			rpc := vfHostileRPC(rng, []string{"t0", "t1"})
			js, _ := json.Marshal(rpc)
			os.WriteFile(filepath.Join(outDir, "c12_last_input.json"), js, 0o644) // survives a crash of the process
			if !m.send(rpc) {
				m.out = nil
				continue
			}
			if m == stranger {
				cs.kind("stranger:" + string(m.proto))
			} else {
				cs.kind(string(m.proto))
			}
			if i%25 == 24 {
				synctest.Wait()
				if !probe(i, "a hostile RPC", rpc) {
					break
				}
				// an honest publication still gets through
				data := []byte(fmt.Sprintf("honest-%d", i))
				if err := tH.Publish(ctx, data); err == nil {
					time.Sleep(1500 * time.Millisecond)
					synctest.Wait()
					got := false
					for {
						select {
						case msg := <-subs[0].ch:
							if string(msg.Data) == string(data) {
								got = true
							}
							continue
						default:
						}
						break
					}
					for {
						select {
						case <-subs[1].ch:
							continue
						default:
						}
						break
					}
					if got {
						delivered++
					} else if viol == nil {
						viol = map[string]any{"property": "C12", "code": 124, "key": "honest-delivery-lost", "what": "a message published by an honest peer was not delivered after hostile input", "index": i, "rpc": string(js)}
					}
				}
			}
		}
		cs.extra[fmt.Sprintf("honest_deliveries_checked_router%d", router)] = delivered
		cs.extra[fmt.Sprintf("rpcs_reaching_the_event_loop_router%d", router)] = count
		os.Remove(filepath.Join(outDir, "c12_last_input.json"))
		for _, s := range subs {
			s.Cancel()
		}
		cancel()
		time.Sleep(3 * time.Second) // announceRetry goroutines sleep up to a second before they notice the context
		synctest.Wait()
	})
	}
	cs.extra["hostile_rpcs_sent"] = total
	cs.add("0", map[string]any{"hostile_rpcs": total}, true)
	if viol != nil {
		js, _ := json.MarshalIndent(viol, "", " ")
		os.WriteFile(filepath.Join(outDir, "violation_hostile.json"), js, 0o644)
	}
	cs.flush("structurally valid RPCs with adversarial field values (empty / huge / unknown topics, wrong-length sequence numbers, bogus author ids, absent optional fields, signatures under a no-sign policy, IHAVE lists around the per-peer budget, PRUNE with huge backoff and bogus / unsigned peer records, empty control entries, floods of validly signed peer-exchange records for unreachable addresses from a peer in good standing, a dozen peers that fill the mesh to Dhi and then all turn negative before the next heartbeat, extension and partial-message fields from the C11 generator) from peers of different protocol versions (and from a connected stranger that accepts none of the node's streams, so that the node knows nothing about it) over REAL streams to a gossipsub node with scoring, peer exchange, the sequence-number validator and extensions, and (a third of the volume each) to a floodsub and a randomsub node with the sequence-number validator; every 25 RPCs the event loop is probed and an honest node's publication must be delivered; the last input is kept on disk so that a crash of the process can be attributed; " +
		"non-trivial = always; distinct = index")
}
