//go:build verif

package pubsub

import (
	"context"
	"fmt"
	"math/rand"
	"strings"
	"testing"
	"testing/synctest"

	pb "github.com/libp2p/go-libp2p-pubsub/pb"
	"github.com/libp2p/go-libp2p/core/peer"
	"github.com/libp2p/go-libp2p/core/protocol"
)

// ---- printing pb structs as Gallina terms of Model.Wire ----

type vfWire struct {
	msgTag   map[*pb.Message]int
	subTag   map[*pb.RPC_SubOpts]int
	graftTag map[*pb.ControlGraft]int
	pruneTag map[*pb.ControlPrune]int
	partTag  map[*pb.PartialMessagesExtension]int
	idTag    map[string]int
	ptrTag   map[*string]int
	n        int
}

func newVfWire() *vfWire {
	return &vfWire{msgTag: map[*pb.Message]int{}, subTag: map[*pb.RPC_SubOpts]int{}, graftTag: map[*pb.ControlGraft]int{},
		pruneTag: map[*pb.ControlPrune]int{}, partTag: map[*pb.PartialMessagesExtension]int{}, idTag: map[string]int{}, ptrTag: map[*string]int{}}
}
func (w *vfWire) next() int { w.n++; return w.n }

func vfOlenB(b []byte) string {
	if b == nil {
		return "None"
	}
	return fmt.Sprintf("(Some %d%%N)", len(b))
}
func vfOlenS(s *string) string {
	if s == nil {
		return "None"
	}
	return fmt.Sprintf("(Some %d%%N)", len(*s))
}
func vfPB(b *bool) string { return vfBool(b != nil) }

func (w *vfWire) msg(m *pb.Message) string {
	t, ok := w.msgTag[m]
	if !ok {
		t = w.next()
		w.msgTag[m] = t
	}
	return fmt.Sprintf("{| pm_tag := %d; pm_from := %s; pm_data := %s; pm_seqno := %s; pm_topic := %s; pm_sig := %s; pm_key := %s; pm_unk := %d%%N |}",
		t, vfOlenB(m.From), vfOlenB(m.Data), vfOlenB(m.Seqno), vfOlenS(m.Topic), vfOlenB(m.Signature), vfOlenB(m.Key), len(m.XXX_unrecognized))
}
func (w *vfWire) sub(s *pb.RPC_SubOpts) string {
	t, ok := w.subTag[s]
	if !ok {
		t = w.next()
		w.subTag[s] = t
	}
	return fmt.Sprintf("{| so_tag := %d; so_sub := %s; so_topic := %s; so_req := %s; so_sup := %s |}", t, vfPB(s.Subscribe), vfOlenS(s.Topicid), vfPB(s.RequestsPartial), vfPB(s.SupportsSendingPartial))
}
func (w *vfWire) id(s string) string {
	t, ok := w.idTag[s]
	if !ok {
		t = w.next()
		w.idTag[s] = t
	}
	return fmt.Sprintf("(%d, %d%%N)", t, len(s))
}
func (w *vfWire) ids(l []string) string { return vfList(l, w.id) }
func (w *vfWire) graft(g *pb.ControlGraft) string {
	t, ok := w.graftTag[g]
	if !ok {
		t = w.next()
		w.graftTag[g] = t
	}
	return fmt.Sprintf("{| g_tag := %d; g_topic := %s |}", t, vfOlenS(g.TopicID))
}
func (w *vfWire) prune(p *pb.ControlPrune) string {
	t, ok := w.pruneTag[p]
	if !ok {
		t = w.next()
		w.pruneTag[p] = t
	}
	bo := "None"
	if p.Backoff != nil {
		bo = fmt.Sprintf("(Some %d%%N)", *p.Backoff)
	}
	peers := vfList(p.Peers, func(pi *pb.PeerInfo) string {
		return fmt.Sprintf("{| pi_id := %s; pi_rec := %s |}", vfOlenB(pi.PeerID), vfOlenB(pi.SignedPeerRecord))
	})
	return fmt.Sprintf("{| pr_tag := %d; pr_topic := %s; pr_peers := %s; pr_backoff := %s |}", t, vfOlenS(p.TopicID), peers, bo)
}
func (w *vfWire) ihave(h *pb.ControlIHave) string {
	ptr := "None"
	tl := 0
	if h.TopicID != nil {
		t, ok := w.ptrTag[h.TopicID]
		if !ok {
			t = w.next()
			w.ptrTag[h.TopicID] = t
		}
		ptr = fmt.Sprintf("(Some %d)", t)
		tl = len(*h.TopicID)
	}
	return fmt.Sprintf("{| ih_ptr := %s; ih_tlen := %d%%N; ih_ids := %s |}", ptr, tl, w.ids(h.MessageIDs))
}
func (w *vfWire) control(c *pb.ControlMessage) string {
	if c == nil {
		return "None"
	}
	ext := "None"
	if c.Extensions != nil {
		ext = fmt.Sprintf("(Some {| ex_partial := %s; ex_test := %s |})", vfPB(c.Extensions.PartialMessages), vfPB(c.Extensions.TestExtension))
	}
	return fmt.Sprintf("(Some {| c_ihave := %s; c_iwant := %s; c_graft := %s; c_prune := %s; c_idw := %s; c_ext := %s |})",
		vfList(c.Ihave, w.ihave),
		vfList(c.Iwant, func(x *pb.ControlIWant) string { return "{| iw_ids := " + w.ids(x.MessageIDs) + " |}" }),
		vfList(c.Graft, w.graft), vfList(c.Prune, w.prune),
		vfList(c.Idontwant, func(x *pb.ControlIDontWant) string { return "{| iw_ids := " + w.ids(x.MessageIDs) + " |}" }), ext)
}
func (w *vfWire) rpc(r *pb.RPC) string {
	part := "None"
	if p := r.Partial; p != nil {
		t, ok := w.partTag[p]
		if !ok {
			t = w.next()
			w.partTag[p] = t
		}
		part = fmt.Sprintf("(Some {| pa_tag := %d; pa_topic := %s; pa_group := %s; pa_msg := %s; pa_meta := %s |})", t, vfOlenS(p.TopicID), vfOlenB(p.GroupID), vfOlenB(p.PartialMessage), vfOlenB(p.PartsMetadata))
	}
	return fmt.Sprintf("{| r_subs := %s; r_pub := %s; r_ctl := %s; r_partial := %s; r_test := %s |}",
		vfList(r.Subscriptions, w.sub), vfList(r.Publish, w.msg), w.control(r.Control), part, vfBool(r.TestExtension != nil))
}

// ---- generation ----

func vfBytes(rng *rand.Rand, maxLen int) []byte {
	switch rng.Intn(8) {
	case 0:
		return nil
	case 1:
		return []byte{}
	}
	return make([]byte, rng.Intn(maxLen+1))
}
func vfStrP(rng *rand.Rand, maxLen int) *string {
	if rng.Intn(10) == 0 {
		return nil
	}
	s := strings.Repeat("t", rng.Intn(maxLen+1))
	return &s
}

var vfIDCounter int

func vfID(rng *rand.Rand, maxExtra int) string {
	vfIDCounter++
	return fmt.Sprintf("%x", vfIDCounter) + strings.Repeat("i", rng.Intn(maxExtra+1))
}

func vfGenRPC(rng *rand.Rand, scale int) *pb.RPC {
	r := &pb.RPC{}
	n := func(k int) int {
		if rng.Intn(3) == 0 {
			return 0
		}
		return rng.Intn(k + 1)
	}
	tr := true
	for i := n(6); i > 0; i-- {
		s := &pb.RPC_SubOpts{Topicid: vfStrP(rng, scale)}
		if rng.Intn(4) != 0 {
			s.Subscribe = &tr
		}
		if rng.Intn(4) == 0 {
			s.RequestsPartial = &tr
		}
		if rng.Intn(4) == 0 {
			s.SupportsSendingPartial = &tr
		}
		r.Subscriptions = append(r.Subscriptions, s)
	}
	for i := n(6); i > 0; i-- {
		m := &pb.Message{From: vfBytes(rng, 40), Data: vfBytes(rng, scale*4), Seqno: vfBytes(rng, 8), Topic: vfStrP(rng, scale), Signature: vfBytes(rng, 70), Key: vfBytes(rng, 40)}
		if rng.Intn(12) == 0 {
			m = &pb.Message{} // completely empty message
		}
		if rng.Intn(10) == 0 {
			m.XXX_unrecognized = make([]byte, rng.Intn(10))
		}
		r.Publish = append(r.Publish, m)
	}
	if rng.Intn(5) != 0 {
		c := &pb.ControlMessage{}
		r.Control = c
		var shared *string
		for i := n(4); i > 0; i-- {
			t := vfStrP(rng, scale)
			if shared != nil && rng.Intn(2) == 0 {
				t = shared // same pointer as the previous IHAVE
			} else if shared != nil && rng.Intn(3) == 0 {
				cp := *shared // equal string, different pointer
				t = &cp
			}
			if t != nil {
				shared = t
			}
			h := &pb.ControlIHave{TopicID: t}
			for j := n(8); j > 0; j-- {
				h.MessageIDs = append(h.MessageIDs, vfID(rng, scale))
			}
			c.Ihave = append(c.Ihave, h)
		}
		for i := n(3); i > 0; i-- {
			w := &pb.ControlIWant{}
			for j := n(8); j > 0; j-- {
				w.MessageIDs = append(w.MessageIDs, vfID(rng, scale))
			}
			c.Iwant = append(c.Iwant, w)
		}
		for i := n(4); i > 0; i-- {
			c.Graft = append(c.Graft, &pb.ControlGraft{TopicID: vfStrP(rng, scale)})
		}
		for i := n(3); i > 0; i-- {
			p := &pb.ControlPrune{TopicID: vfStrP(rng, scale)}
			if rng.Intn(2) == 0 {
				v := uint64(rng.Intn(300))
				if rng.Intn(4) == 0 {
					v = rng.Uint64()
				}
				p.Backoff = &v
			}
			for j := n(3); j > 0; j-- {
				p.Peers = append(p.Peers, &pb.PeerInfo{PeerID: vfBytes(rng, 40), SignedPeerRecord: vfBytes(rng, scale*3)})
			}
			c.Prune = append(c.Prune, p)
		}
		for i := n(3); i > 0; i-- {
			w := &pb.ControlIDontWant{}
			for j := n(8); j > 0; j-- {
				w.MessageIDs = append(w.MessageIDs, vfID(rng, scale))
			}
			c.Idontwant = append(c.Idontwant, w)
		}
		if rng.Intn(4) == 0 {
			c.Extensions = &pb.ControlExtensions{}
			if rng.Intn(2) == 0 {
				c.Extensions.PartialMessages = &tr
			}
			if rng.Intn(2) == 0 {
				c.Extensions.TestExtension = &tr
			}
		}
	}
	if rng.Intn(4) == 0 {
		r.Partial = &pb.PartialMessagesExtension{TopicID: vfStrP(rng, scale), GroupID: vfBytes(rng, 20), PartialMessage: vfBytes(rng, scale*3), PartsMetadata: vfBytes(rng, 20)}
	}
	if rng.Intn(5) == 0 {
		r.TestExtension = &pb.TestExtension{}
	}
	return r
}

func TestVF_C11(t *testing.T) {
	cs := vfNewCases(t, "c11", "From PS Require Import Model.Wire Model.Split Run.C11Run.", "case", "check_case")
	cs.shard = 150
	rng := vfRng(11)
	ncases := vfN(450, 6000)
	nsplit, nslow := 0, 0
	for c := 0; c < ncases; c++ {
		scale := []int{3, 10, 30, 120}[rng.Intn(4)]
		r := vfGenRPC(rng, scale)
		rpc := &RPC{RPC: *r}
		sz := rpc.Size()
		rest := *rpc
		rest.Publish = nil
		restSz := rest.Size()
		// limits: around the sizes that matter, the minimum, beyond the RPC's own size
		var limit int
		switch rng.Intn(8) {
		case 0:
			limit = 1 + rng.Intn(8)
		case 1:
			limit = sz + rng.Intn(3) - 1
		case 2:
			limit = restSz + rng.Intn(3) - 1
		case 3:
			limit = sz + 1 + rng.Intn(50)
		default:
			limit = 1 + rng.Intn(sz+2)
		}
		if limit < 1 {
			limit = 1
		}
		w := newVfWire()
		orig := w.rpc(&rpc.RPC)
		var frs []string
		var szs []string
		var frj []map[string]any
		for f := range rpc.split(limit) {
			ff := f
			frs = append(frs, w.rpc(&ff.RPC))
			szs = append(szs, fmt.Sprintf("%d%%N", ff.Size()))
			frj = append(frj, map[string]any{"size": ff.Size(), "subs": len(ff.Subscriptions), "publish": len(ff.Publish), "control": ff.Control != nil})
		}
		if len(frs) > 1 {
			nsplit++
		}
		if restSz >= limit {
			nslow++
		}
		lit := fmt.Sprintf("{| k_rpc := %s;\n   k_limit := %d%%N; k_size := %d%%N;\n   k_frags := [%s];\n   k_sizes := [%s] |}", orig, limit, sz, strings.Join(frs, ";\n     "), strings.Join(szs, "; "))
		cs.add(lit, map[string]any{"rpc": orig, "limit": limit, "size": sz, "rest_size": restSz, "fragments": frj}, restSz >= limit && len(frs) > 1)
		cs.kind(fmt.Sprintf("frags=%d", min(len(frs), 5)))
	}
	cs.extra["split_into_more_than_one"] = nsplit
	cs.extra["slow_path"] = nslow
	cs.flush("random RPCs with all six control kinds, extensions, partial and test-extension fields, shared / distinct IHAVE topic pointers, empty and oversized elements; " +
		"limits at the minimum, around the RPC's size and the size of its non-publish part, and uniformly below. non-trivial = slow path taken and more than one fragment; distinct = hash of RPC+limit+fragments")
}

// ---- sendRPC on a real router: what is queued for the wire and what is reported as dropped ----

type vfNopTracer struct{}

func (vfNopTracer) OnNewOutboundStream(peer.ID, protocol.ID) {}
func (vfNopTracer) OnClosedOutboundStream(peer.ID)           {}
func (vfNopTracer) Join(string)                              {}
func (vfNopTracer) Leave(string)                             {}
func (vfNopTracer) Graft(peer.ID, string)                    {}
func (vfNopTracer) Prune(peer.ID, string)                    {}
func (vfNopTracer) ValidateMessage(*Message)                 {}
func (vfNopTracer) DeliverMessage(*Message)                  {}
func (vfNopTracer) RejectMessage(*Message, string)           {}
func (vfNopTracer) DuplicateMessage(*Message)                {}
func (vfNopTracer) ThrottlePeer(peer.ID)                     {}
func (vfNopTracer) RecvRPC(*RPC)                             {}
func (vfNopTracer) SendRPC(*RPC, peer.ID)                    {}
func (vfNopTracer) DropRPC(*RPC, peer.ID)                    {}
func (vfNopTracer) UndeliverableMessage(*Message)            {}

type vfDropTracer struct {
	vfNopTracer
	onDrop func(*RPC)
}

func (d *vfDropTracer) DropRPC(r *RPC, _ peer.ID) { d.onDrop(r) }

func TestVF_C11Send(t *testing.T) {
	cs := vfNewCases(t, "c11s", "From PS Require Import Model.Wire Model.Split Run.C11Run.", "scase", "check_send")
	cs.shard = 150
	rng := vfRng(111)
	ncases := vfN(200, 2500)
	ndrop := 0
	for c := 0; c < ncases; c++ {
		scale := []int{3, 10, 30, 120}[rng.Intn(4)]
		r := vfGenRPC(rng, scale)
		if rpcIsEmpty(&RPC{RPC: *r}) {
			continue // callers never hand sendRPC an RPC that carries nothing
		}
		// pending control retries (PRUNEs of topics that are not joined are never stale) and pending gossip for the peer
		// are piggybacked by sendRPC BEFORE it decides whether the RPC fits: what goes to the wire is the merged RPC
		var pendCtl *pb.ControlMessage
		var pendIhave []*pb.ControlIHave
		merged := r
		if rng.Intn(2) == 0 {
			mc := *r
			merged = &mc
			if r.Control != nil {
				cc := *r.Control
				cc.Prune = append([]*pb.ControlPrune{}, cc.Prune...)
				merged.Control = &cc
			} else {
				merged.Control = &pb.ControlMessage{}
			}
			if rng.Intn(3) != 0 {
				pendCtl = &pb.ControlMessage{}
				for k := 1 + rng.Intn(scale); k > 0; k-- {
					tn := fmt.Sprintf("retry-%d-%s", k, strings.Repeat("x", rng.Intn(scale)))
					bo := uint64(rng.Intn(100))
					pendCtl.Prune = append(pendCtl.Prune, &pb.ControlPrune{TopicID: &tn, Backoff: &bo})
				}
				merged.Control.Prune = append(merged.Control.Prune, pendCtl.Prune...)
			}
			if rng.Intn(3) != 0 {
				for k := 1 + rng.Intn(3); k > 0; k-- {
					tn := fmt.Sprintf("g%d", k)
					var ids []string
					for j := 1 + rng.Intn(scale); j > 0; j-- {
						ids = append(ids, fmt.Sprintf("id-%d-%d", k, rng.Intn(1000000)))
					}
					pendIhave = append(pendIhave, &pb.ControlIHave{TopicID: &tn, MessageIDs: ids})
				}
				// pending gossip REPLACES the IHAVEs of the RPC in hand (piggybackGossip); the callers never have both
				r.Control = vfWithoutIhave(r.Control)
				merged.Control.Ihave = pendIhave
			}
			if merged.Control != nil && merged.Control.Size() == 0 && r.Control == nil {
				merged.Control = nil
			}
		}
		if rpcIsEmpty(&RPC{RPC: *r}) {
			continue
		}
		sz := (&RPC{RPC: *r}).Size()
		msz := (&RPC{RPC: *merged}).Size()
		max := 1 + rng.Intn(msz+4)
		switch rng.Intn(5) {
		case 0:
			max = msz + rng.Intn(3) - 1
		case 1:
			if msz > sz { // the RPC in hand fits, the merged one does not
				max = sz + 1 + rng.Intn(msz-sz)
			}
		}
		if max < 1 {
			max = 1
		}
		var lit string
		var rec map[string]any
		synctest.Test(t, func(t *testing.T) {
			ctx, cancel := context.WithCancel(context.Background())
			defer cancel()
			h := vfHosts(t, 1)[0]
			w := newVfWire()
			var dropped []string
			dt := &vfDropTracer{onDrop: func(d *RPC) { dropped = append(dropped, w.rpc(&d.RPC)) }}
			ps, err := NewGossipSub(ctx, h, WithMaxMessageSize(max), WithRawTracer(dt))
			if err != nil {
				t.Fatal(err)
			}
			gs := ps.rt.(*GossipSubRouter)
			p := vfPeerIDs(1)[0]
			orig := w.rpc(merged)
			var queued []string
			qlens := []int{}
			vfEval(ps, func() {
				q := newRpcQueue(10000)
				ps.peers[p] = q
				if pendCtl != nil {
					gs.control[p] = pendCtl
				}
				if pendIhave != nil {
					gs.gossip[p] = pendIhave
				}
				gs.sendRPC(p, &RPC{RPC: *r}, false)
				for q.queue.Len() > 0 {
					cctx, ccancel := context.WithCancel(ctx)
					ccancel()
					out, err := q.Pop(cctx)
					if err != nil {
						break
					}
					queued = append(queued, w.rpc(&out.RPC))
					qlens = append(qlens, out.Size())
				}
				delete(ps.peers, p)
				delete(gs.control, p)
			})
			if len(dropped) > 0 {
				ndrop++
			}
			lit = fmt.Sprintf("{| s_rpc := %s;\n   s_max := %d%%N;\n   s_queued := [%s];\n   s_dropped := [%s] |}", orig, max, strings.Join(queued, ";\n     "), strings.Join(dropped, ";\n     "))
 			rec = map[string]any{"rpc": orig, "max": max, "size": msz, "size_before_piggybacking": sz, "pending_control": pendCtl != nil, "pending_gossip": pendIhave != nil, "queued_sizes": qlens, "dropped": len(dropped)}
			cancel()
		})
		cs.add(lit, rec, len(rec["queued_sizes"].([]int)) > 1)
	}
	cs.extra["cases_with_a_drop"] = ndrop
	cs.flush("gossipsub sendRPC on a real router with a fake peer queue and a RawTracer recording DropRPC; same RPC generator as for split, in half of the cases with pending PRUNE retries and / or pending IHAVE gossip for the peer that sendRPC piggybacks first (limits between the size before and after piggybacking included); max message size from 1 to beyond the RPC's size. " +
		"non-trivial = more than one RPC queued; distinct = hash of RPC+max+queued+dropped")
}

func vfWithoutIhave(c *pb.ControlMessage) *pb.ControlMessage {
	if c == nil {
		return nil
	}
	x := *c
	x.Ihave = nil
	if x.Size() == 0 {
		return nil
	}
	return &x
}
