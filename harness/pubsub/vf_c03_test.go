//go:build verif

package pubsub

import (
	"context"
	"crypto/rand"
	"crypto/sha256"
	"encoding/binary"
	"fmt"
	"sync"
	"testing"
	"testing/synctest"

	pb "github.com/libp2p/go-libp2p-pubsub/pb"
	"github.com/libp2p/go-libp2p/core/crypto"
	"github.com/libp2p/go-libp2p/core/peer"
)

// C03: messages derived from validly signed ones by field-level tampering / recombination, and raw
// field fuzz, pushed through a real node under each signature policy; the crypto oracle's answers
// (does the author ID parse, is a key extractable, does the attached key unmarshal / match, does the
// signature verify under the bound key over prefix+marshal) are computed here independently and
// handed to the model.

type vfC03Tracer struct {
	vfNopTracer
	onReject func(m *Message, reason string)
}

func (tr *vfC03Tracer) RejectMessage(m *Message, reason string) { tr.onReject(m, reason) }

type vfKey struct {
	priv crypto.PrivKey
	pid  peer.ID
	name string
}

func vfMkKeys(t *testing.T) []vfKey {
	var ks []vfKey
	for _, kt := range []struct {
		name string
		typ  int
		bits int
	}{{"ed25519", crypto.Ed25519, 0}, {"secp256k1", crypto.Secp256k1, 0}, {"rsa", crypto.RSA, 2048}, {"ecdsa", crypto.ECDSA, 0}, {"ed25519b", crypto.Ed25519, 0}} {
		priv, _, err := crypto.GenerateKeyPairWithReader(kt.typ, kt.bits, rand.Reader)
		if err != nil {
			t.Fatal(err)
		}
		pid, err := peer.IDFromPrivateKey(priv)
		if err != nil {
			t.Fatal(err)
		}
		ks = append(ks, vfKey{priv, pid, kt.name})
	}
	return ks
}

func vfC03Oracle(m *pb.Message) (parses, extractable, unmarshals, matches, verifies bool) {
	pid, err := peer.IDFromBytes(m.From)
	parses = err == nil
	var k crypto.PubKey
	if parses {
		if ek, err := pid.ExtractPublicKey(); err == nil && ek != nil {
			extractable = true
			if m.Key == nil {
				k = ek
			}
		}
	}
	if m.Key != nil {
		uk, err := crypto.UnmarshalPublicKey(m.Key)
		if err == nil {
			unmarshals = true
			if parses && pid.MatchesPublicKey(uk) {
				matches = true
				k = uk
			}
		}
	}
	if k != nil && m.Signature != nil {
		xm := *m
		xm.Signature = nil
		xm.Key = nil
		b, err := xm.Marshal()
		if err == nil {
			ok, err := k.Verify(append([]byte(SignPrefix), b...), m.Signature)
			verifies = err == nil && ok
		}
	}
	return
}

func vfOptTag(b []byte, tag int) string {
	if b == nil {
		return "None"
	}
	return fmt.Sprintf("(Some %d)", tag)
}

func TestVF_C03(t *testing.T) {
	cs := vfNewCases(t, "c03", "From PS Require Import Model.SignPolicy Run.C03Run.", "case", "check_case")
	cs.shard = 400
	rng := vfRng(3)
	keys := vfMkKeys(t)
	policies := []struct {
		name string
		p    MessageSignaturePolicy
	}{{"StrictSign", StrictSign}, {"StrictNoSign", StrictNoSign}, {"LaxSign", LaxSign}, {"LaxNoSign", LaxNoSign}}
	counter := uint64(0)
	topicStr := "t"
	for _, pol := range policies {
		for _, anon := range []bool{false, true} {
			if anon && (pol.p == StrictSign || pol.p == LaxSign) {
				continue // WithNoAuthor clears the signing bit: these configurations do not exist
			}
			synctest.Test(t, func(t *testing.T) {
				ctx, cancel := context.WithCancel(context.Background())
				defer cancel()
				h := vfHosts(t, 1)[0]
				var mu sync.Mutex
				reasons := map[string]int{}
				delivered := map[string]bool{}
				idOf := func(m *pb.Message) string {
					b, _ := m.Marshal()
					s := sha256.Sum256(b)
					return string(s[:])
				}
				tr := &vfC03Tracer{onReject: func(m *Message, r string) {
					code := map[string]int{RejectMissingSignature: 1, RejectUnexpectedSignature: 2, RejectUnexpectedAuthInfo: 3, RejectSelfOrigin: 4, RejectInvalidSignature: 5}[r]
					if code == 0 {
						code = 9
					}
					mu.Lock()
					reasons[idOf(m.Message)] = code
					mu.Unlock()
				}}
				opts := []Option{WithMessageSignaturePolicy(pol.p), WithMessageIdFn(idOf), WithRawTracer(tr)}
				if anon {
					opts = append(opts, WithNoAuthor())
				}
				ps, err := NewFloodSub(ctx, h, opts...)
				if err != nil {
					t.Fatal(err)
				}
				topic, err := ps.Join("t")
				if err != nil {
					t.Fatal(err)
				}
				sub, err := topic.Subscribe()
				if err != nil {
					t.Fatal(err)
				}
				topic2, _ := ps.Join("t2")
				sub2, _ := topic2.Subscribe()
				for _, sb := range []*Subscription{sub, sub2} {
					go func() {
						for {
							m, err := sb.Next(ctx)
							if err != nil {
								return
							}
							mu.Lock()
							delivered[idOf(m.Message)] = true
							mu.Unlock()
						}
					}()
				}
				src := vfPeerIDs(1)[0]
				push := func(m *pb.Message, own bool, kind string) {
					vfEval(ps, func() {
						ps.handleIncomingRPC(&RPC{RPC: pb.RPC{Publish: []*pb.Message{m}}, from: src})
					})
					synctest.Wait()
					id := idOf(m)
					mu.Lock()
					del, rs := delivered[id], reasons[id]
					mu.Unlock()
					parses, extractable, unmarshals, matches, verifies := vfC03Oracle(m)
					fromTag := 2
					if string(m.From) == string(h.ID()) {
						fromTag = 1
					}
					lit := fmt.Sprintf("{| k_policy := %s; k_anon := %v;\n   k_msg := {| m_from := %s; m_data := %s; m_seqno := %s; m_topic := %s; m_sig := %s; m_key := %s; m_unk := %s |};\n   k_oracle := {| o_pid_parses := %v; o_extractable := %v; o_key_unmarshals := %v; o_key_matches := %v; o_verifies := %v |};\n   k_own := %v; k_local := false; o_delivered := %v; o_reason := %d |}",
						pol.name, anon, vfOptTag(m.From, fromTag), vfOptTag(m.Data, 3), vfOptTag(m.Seqno, 4), "(Some 5)", vfOptTag(m.Signature, 6), vfOptTag(m.Key, 7), vfOptTag(m.XXX_unrecognized, 8),
						parses, extractable, unmarshals, matches, verifies, own, del, rs)
					cs.add(lit, map[string]any{"policy": pol.name, "anonymous": anon, "mutation": kind, "from_len": len(m.From), "has_sig": m.Signature != nil, "has_key": m.Key != nil,
						"oracle": map[string]bool{"pid_parses": parses, "extractable": extractable, "key_unmarshals": unmarshals, "key_matches": matches, "verifies": verifies},
						"delivered": del, "reason": rs}, kind != "valid")
					cs.kind(kind)
				}
				mkValid := func(k vfKey) *pb.Message {
					counter++
					seq := make([]byte, 8)
					binary.BigEndian.PutUint64(seq, counter)
					m := &pb.Message{From: []byte(k.pid), Data: []byte(fmt.Sprintf("data-%d", counter)), Seqno: seq, Topic: &topicStr}
					if err := signMessage(k.pid, k.priv, m); err != nil {
						t.Fatal(err)
					}
					return m
				}
				clone := func(m *pb.Message) *pb.Message {
					c := *m
					c.From = append([]byte(nil), m.From...)
					c.Data = append([]byte(nil), m.Data...)
					c.Seqno = append([]byte(nil), m.Seqno...)
					if m.Signature != nil {
						c.Signature = append([]byte(nil), m.Signature...)
					}
					if m.Key != nil {
						c.Key = append([]byte(nil), m.Key...)
					}
					return &c
				}
				nrounds := vfN(2, 12)
				for round := 0; round < nrounds; round++ {
					for ki, k := range keys {
						other := keys[(ki+1)%len(keys)]
						base := mkValid(k)
						push(clone(base), pol.p != StrictNoSign, "valid")
						muts := map[string]func(m *pb.Message){
							"data":          func(m *pb.Message) { m.Data[0] ^= 1 },
							"topic":         func(m *pb.Message) { s := "t2"; m.Topic = &s },
							"seqno":         func(m *pb.Message) { m.Seqno[7] ^= 1 },
							"seqno-nil":     func(m *pb.Message) { m.Seqno = nil },
							"from-other":    func(m *pb.Message) { m.From = []byte(other.pid) },
							"from-garbage":  func(m *pb.Message) { m.From = []byte{1, 2, 3} },
							"from-nil":      func(m *pb.Message) { m.From = nil },
							"from-self":     func(m *pb.Message) { m.From = []byte(h.ID()) },
							"from-self-unsigned": func(m *pb.Message) { m.From = []byte(h.ID()); m.Signature = nil; m.Key = nil },
							"from-self-unsigned-no-seqno": func(m *pb.Message) { m.From = []byte(h.ID()); m.Signature = nil; m.Key = nil; m.Seqno = nil },
							"sig-nil":       func(m *pb.Message) { m.Signature = nil; m.Key = nil },
							"sig-flip":      func(m *pb.Message) { m.Signature[0] ^= 1 },
							"sig-garbage":   func(m *pb.Message) { m.Signature = []byte{9, 9, 9} },
							"sig-empty":     func(m *pb.Message) { m.Signature = []byte{} }, // present on the wire, zero length
							"key-empty":     func(m *pb.Message) { m.Key = []byte{} },
							"from-empty":    func(m *pb.Message) { m.From = []byte{} },
							"seqno-empty":   func(m *pb.Message) { m.Seqno = []byte{} },
							"data-empty":    func(m *pb.Message) { m.Data = []byte{} },
							"sig-swapped":   func(m *pb.Message) { m.Signature = mkValid(k).Signature },
							"key-nil":       func(m *pb.Message) { m.Key = nil },
							"key-garbage":   func(m *pb.Message) { m.Key = []byte{7, 7} },
							"key-other":     func(m *pb.Message) { b, _ := crypto.MarshalPublicKey(other.priv.GetPublic()); m.Key = b },
							"key-own-added": func(m *pb.Message) { b, _ := crypto.MarshalPublicKey(k.priv.GetPublic()); m.Key = b },
							"unknown-field": func(m *pb.Message) { m.XXX_unrecognized = []byte{0x78, 0x01} }, // field 15 varint 1
							"resign-other": func(m *pb.Message) {
								m.Signature, m.Key = nil, nil
								_ = signMessage(other.pid, other.priv, m) // signed by a key that does not match From
								m.From = []byte(k.pid)
							},
							"strip-auth": func(m *pb.Message) { m.From, m.Seqno, m.Signature, m.Key = nil, nil, nil, nil },
						}
						names := make([]string, 0, len(muts))
						for n := range muts {
							names = append(names, n)
						}
						// deterministic order
						for i := 0; i < len(names); i++ {
							for j := i + 1; j < len(names); j++ {
								if names[j] < names[i] {
									names[i], names[j] = names[j], names[i]
								}
							}
						}
						for _, n := range names {
							m := clone(base)
							muts[n](m)
							push(m, false, n)
						}
						// two random mutations combined
						for c := 0; c < 3; c++ {
							m := clone(base)
							a, b := names[rng.Intn(len(names))], names[rng.Intn(len(names))]
							func() {
								defer func() { recover() }()
								muts[a](m)
								muts[b](m)
							}()
							push(m, false, a+"+"+b)
						}
					}
				}
				cancel()
				synctest.Wait()
			})
		}
	}
	// messages a correct node publishes itself, in every author mode, offered to a StrictSign and a LaxNoSign receiver
	vfC03Own(t, cs, keys)
	vfC03OwnPolicies(t, cs, keys)
	cs.flush("validly signed messages (Ed25519, secp256k1, RSA, ECDSA authors) mutated field by field and in random pairs (data, topic, seqno, from, signature, key, unknown field, swapped signature, re-signed with a non-matching key, stripped), under each policy x anonymous mode; plus a correct node's own publications in every author mode replayed at correct receivers. " +
		"non-trivial = a mutated message; distinct = hash of policy+fields+oracle+observation")
}

func vfC03Own(t *testing.T, cs *vfCases, keys []vfKey) {
	type mode struct {
		name string
		opts func(h peer.ID) []Option
		pub  []PubOpt
	}
	synctest.Test(t, func(t *testing.T) {
		ctx, cancel := context.WithCancel(context.Background())
		defer cancel()
		hs := vfHosts(t, 3)
		topicStr := "t"
		// receivers
		var mu sync.Mutex
		mkRecv := func(hidx int, pol MessageSignaturePolicy) (*PubSub, map[string]bool, map[string]int) {
			delivered := map[string]bool{}
			reasons := map[string]int{}
			idOf := func(m *pb.Message) string { b, _ := m.Marshal(); s := sha256.Sum256(b); return string(s[:]) }
			tr := &vfC03Tracer{onReject: func(m *Message, r string) {
				mu.Lock()
				reasons[idOf(m.Message)] = 9
				mu.Unlock()
			}}
			ps, err := NewFloodSub(ctx, hs[hidx], WithMessageSignaturePolicy(pol), WithMessageIdFn(idOf), WithRawTracer(tr))
			if err != nil {
				t.Fatal(err)
			}
			tp, _ := ps.Join("t")
			sub, _ := tp.Subscribe()
			go func() {
				for {
					m, err := sub.Next(ctx)
					if err != nil {
						return
					}
					mu.Lock()
					delivered[idOf(m.Message)] = true
					mu.Unlock()
				}
			}()
			return ps, delivered, reasons
		}
		rStrict, dStrict, _ := mkRecv(1, StrictSign)
		rLax, dLax, _ := mkRecv(2, LaxNoSign)
		// the publishing node: default author, custom author (key in the peerstore), per-publish key
		custom := keys[2] // RSA: key must be attached
		hs[0].Peerstore().AddPrivKey(custom.pid, custom.priv)
		hs[0].Peerstore().AddPubKey(custom.pid, custom.priv.GetPublic())
		for _, md := range []struct {
			name string
			opt  []Option
			pub  []PubOpt
		}{
			{"default-author", nil, nil},
			{"custom-author", []Option{WithMessageAuthor(custom.pid)}, nil},
			{"per-publish-key-ed25519", nil, []PubOpt{WithSecretKeyAndPeerId(keys[0].priv, keys[0].pid)}},
			{"per-publish-key-rsa", nil, []PubOpt{WithSecretKeyAndPeerId(keys[2].priv, keys[2].pid)}},
		} {
			pctx, pcancel := context.WithCancel(ctx)
			ps, err := NewFloodSub(pctx, hs[0], md.opt...)
			if err != nil {
				t.Fatal(err)
			}
			tp, _ := ps.Join("t")
			sub, _ := tp.Subscribe()
			for i := 0; i < 3; i++ {
				if err := tp.Publish(pctx, []byte(fmt.Sprintf("own-%s-%d", md.name, i)), md.pub...); err != nil {
					t.Fatal(err)
				}
				m, err := sub.Next(pctx)
				if err != nil {
					t.Fatal(err)
				}
				for ri, r := range []*PubSub{rStrict, rLax} {
					pm := *m.Message
					vfEval(r, func() {
						r.handleIncomingRPC(&RPC{RPC: pb.RPC{Publish: []*pb.Message{&pm}}, from: vfPeerIDs(1)[0]})
					})
					synctest.Wait()
					b, _ := pm.Marshal()
					s := sha256.Sum256(b)
					mu.Lock()
					del := []map[string]bool{dStrict, dLax}[ri][string(s[:])]
					mu.Unlock()
					parses, extractable, unmarshals, matches, verifies := vfC03Oracle(&pm)
					pol := []string{"StrictSign", "LaxNoSign"}[ri]
					rs := 0
					if !del {
						rs = 9
					}
					lit := fmt.Sprintf("{| k_policy := %s; k_anon := false;\n   k_msg := {| m_from := %s; m_data := %s; m_seqno := %s; m_topic := %s; m_sig := %s; m_key := %s; m_unk := None |};\n   k_oracle := {| o_pid_parses := %v; o_extractable := %v; o_key_unmarshals := %v; o_key_matches := %v; o_verifies := %v |};\n   k_own := true; k_local := false; o_delivered := %v; o_reason := %d |}",
						pol, vfOptTag(pm.From, 2), vfOptTag(pm.Data, 3), vfOptTag(pm.Seqno, 4), "(Some 5)", vfOptTag(pm.Signature, 6), vfOptTag(pm.Key, 7),
						parses, extractable, unmarshals, matches, verifies, del, rs)
					cs.add(lit, map[string]any{"own_publication": md.name, "receiver_policy": pol, "has_key": pm.Key != nil, "delivered": del}, true)
					cs.kind("own:" + md.name)
				}
			}
			pcancel()
			synctest.Wait()
		}
		_ = topicStr
		cancel()
		synctest.Wait()
	})
}

// Own publications judged on the publishing node itself, under every signature policy, with and without an author, with the
// node's own identity or a per-publish key (WithSecretKeyAndPeerId): what Topic.Publish hands to the local subscribers (and
// hence to the router) must pass the same policy check as a message from a peer, except for the self-origin rule.
func vfC03OwnPolicies(t *testing.T, cs *vfCases, keys []vfKey) {
	synctest.Test(t, func(t *testing.T) {
		ctx, cancel := context.WithCancel(context.Background())
		defer cancel()
		h := vfHosts(t, 1)[0]
		idOf := func(m *pb.Message) string { b, _ := m.Marshal(); s := sha256.Sum256(b); return string(s[:]) }
		n := 0
		for _, pol := range []struct {
			name string
			p    MessageSignaturePolicy
		}{{"StrictSign", StrictSign}, {"StrictNoSign", StrictNoSign}, {"LaxSign", LaxSign}, {"LaxNoSign", LaxNoSign}} {
			for _, anon := range []bool{false, true} {
				for _, po := range []struct {
					name string
					pub  []PubOpt
				}{{"node-identity", nil}, {"per-publish-key-ed25519", []PubOpt{WithSecretKeyAndPeerId(keys[0].priv, keys[0].pid)}},
					{"per-publish-key-rsa", []PubOpt{WithSecretKeyAndPeerId(keys[2].priv, keys[2].pid)}}} {
					var mu sync.Mutex
					var rejected *pb.Message
					reason := 0
					tr := &vfC03Tracer{onReject: func(m *Message, r string) {
						code := map[string]int{RejectMissingSignature: 1, RejectUnexpectedSignature: 2, RejectUnexpectedAuthInfo: 3, RejectSelfOrigin: 4, RejectInvalidSignature: 5}[r]
						if code == 0 {
							code = 9
						}
						mu.Lock()
						rejected, reason = m.Message, code
						mu.Unlock()
					}}
					pctx, pcancel := context.WithCancel(ctx)
					opts := []Option{WithMessageSignaturePolicy(pol.p), WithRawTracer(tr), WithMessageIdFn(idOf)}
					if anon {
						opts = append(opts, WithNoAuthor())
					}
					ps, err := NewFloodSub(pctx, h, opts...)
					if err != nil {
						pcancel()
						continue // a combination the constructor refuses
					}
					tp, _ := ps.Join("t")
					sub, _ := tp.Subscribe()
					n++
					perr := tp.Publish(pctx, []byte(fmt.Sprintf("own-policy-%d", n)), po.pub...)
					synctest.Wait()
					var got *pb.Message
					select {
					case m := <-sub.ch:
						got = m.Message
					default:
					}
					mu.Lock()
					rej, rs := rejected, reason
					mu.Unlock()
					m := got
					if m == nil {
						m = rej
					}
					if m != nil {
						parses, extractable, unmarshals, matches, verifies := vfC03Oracle(m)
						fromTag := 2
						if string(m.From) == string(h.ID()) {
							fromTag = 1
						}
						if got != nil {
							rs = 0
						}
						// the policy in force is what the node runs with: WithNoAuthor switches signing off
						lit := fmt.Sprintf("{| k_policy := %s; k_anon := %v;\n   k_msg := {| m_from := %s; m_data := %s; m_seqno := %s; m_topic := %s; m_sig := %s; m_key := %s; m_unk := None |};\n   k_oracle := {| o_pid_parses := %v; o_extractable := %v; o_key_unmarshals := %v; o_key_matches := %v; o_verifies := %v |};\n   k_own := %v; k_local := true; o_delivered := %v; o_reason := %d |}",
							vfPolicyName(ps.signPolicy), anon, vfOptTag(m.From, fromTag), vfOptTag(m.Data, 3), vfOptTag(m.Seqno, 4), "(Some 5)", vfOptTag(m.Signature, 6), vfOptTag(m.Key, 7),
							parses, extractable, unmarshals, matches, verifies, po.pub == nil, got != nil, rs)
						cs.add(lit, map[string]any{"own_publication_on_publisher": po.name, "configured_policy": pol.name, "policy_in_force": vfPolicyName(ps.signPolicy), "anonymous": anon,
							"publish_error": fmt.Sprint(perr), "delivered_locally": got != nil, "has_sig": m.Signature != nil, "has_from": m.From != nil, "reason": rs}, true)
						cs.kind("own-on-publisher:" + po.name)
					}
					pcancel()
					synctest.Wait()
				}
			}
		}
		cancel()
		synctest.Wait()
	})
}

func vfPolicyName(p MessageSignaturePolicy) string {
	switch p {
	case StrictSign:
		return "StrictSign"
	case StrictNoSign:
		return "StrictNoSign"
	case LaxSign:
		return "LaxSign"
	default:
		return "LaxNoSign"
	}
}
