//go:build verif

package pubsub

import (
	"context"
	"encoding/binary"
	"fmt"
	"log/slog"
	"os"
	"strings"
	"sync"
	"testing"
	"time"
	"testing/synctest"

	pb "github.com/libp2p/go-libp2p-pubsub/pb"
	"github.com/libp2p/go-libp2p/core/host"
	"github.com/libp2p/go-libp2p/core/peer"
)

// C20 through the whole pipeline: a real node with the sequence-number validator as default validator (inline or
// asynchronous) followed by an accepting topic validator (inline or asynchronous) and an accepting second default
// validator; messages of two authors with arbitrary sequence numbers arrive one after the other from a peer; what reaches
// the subscription must be what the validator alone would accept, and nothing it ignores may be delivered.

func TestVF_C20Pipe(t *testing.T) {
	cs := vfNewCases(t, "c20p", "From PS Require Import Model.SeqnoVal Run.C20Run.", "case", "check_case")
	rng := vfRng(2020)
	ncases := vfN(60, 600)
	for c := 0; c < ncases; c++ {
		seqInline, topInline, extraInline := rng.Intn(2) == 0, rng.Intn(2) == 0, rng.Intn(2) == 0
		// every third history: a gossipsub node with peer scoring; a second forwarder sends its copy of every message while the
		// first copy is still inside an asynchronous topic validator, or right after the verdict
		scored := c%3 == 2
		if scored {
			seqInline, topInline = rng.Intn(4) == 0, false
		}
		n := 2 + rng.Intn(6)
		msgs := make([]vfC20Msg, n)
		var last uint64
		for i := range msgs {
			var v uint64
			switch rng.Intn(6) {
			case 0:
				v = last // replay
			case 1:
				v = uint64(rng.Intn(4))
			case 2:
				v = ^uint64(0) - uint64(rng.Intn(2))
			default:
				v = last + uint64(rng.Intn(5)) - 1
			}
			last = v
			msgs[i] = vfC20Msg{Author: rng.Intn(2), Seq: vfSeqBytes(v)}
		}
		var lit string
		var rec map[string]any
		synctest.Test(t, func(t *testing.T) {
			ctx, cancel := context.WithCancel(context.Background())
			defer cancel()
			h := vfHosts(t, 1)[0]
			st := vfMemMeta{}
			accept := func(context.Context, peer.ID, *Message) ValidationResult { return ValidationAccept }
			var holdMu sync.Mutex
			var gate chan struct{}
			held := func(ctx context.Context, _ peer.ID, _ *Message) ValidationResult {
				holdMu.Lock()
				g := gate
				holdMu.Unlock()
				if g != nil {
					select {
					case <-g:
					case <-ctx.Done():
					}
				}
				return ValidationAccept
			}
			mk := NewFloodSub
			var sopts []Option
			if scored {
				mk = func(ctx context.Context, h host.Host, opts ...Option) (*PubSub, error) { return NewGossipSub(ctx, h, opts...) }
				sopts = append(sopts, WithPeerScore(&PeerScoreParams{AppSpecificScore: func(peer.ID) float64 { return 0 }, DecayInterval: time.Hour, DecayToZero: 0.01,
					Topics: map[string]*TopicScoreParams{"t": {TopicWeight: 1, TimeInMeshQuantum: time.Second, InvalidMessageDeliveriesWeight: -1, InvalidMessageDeliveriesDecay: 0.9}}},
					&PeerScoreThresholds{GossipThreshold: -1000, PublishThreshold: -2000, GraylistThreshold: -3000}))
			}
			ps, err := mk(ctx, h, append(sopts, WithMessageSignaturePolicy(LaxNoSign), WithMessageIdFn(func(m *pb.Message) string { return string(m.Data) }),
				WithDefaultValidator(NewBasicSeqnoValidator(st, slog.New(slog.NewTextHandler(os.Stderr, &slog.HandlerOptions{Level: slog.LevelError}))), WithValidatorInline(seqInline)),
				WithDefaultValidator(accept, WithValidatorInline(extraInline)))...)
			if err != nil {
				t.Fatal(err)
			}
			topVal := accept
			if scored {
				topVal = held
			}
			if err := ps.RegisterTopicValidator("t", topVal, WithValidatorInline(topInline), WithValidatorTimeout(time.Hour)); err != nil {
				t.Fatal(err)
			}
			tp, err := ps.Join("t")
			if err != nil {
				t.Fatal(err)
			}
			sub, err := tp.Subscribe()
			if err != nil {
				t.Fatal(err)
			}
			authors := vfPeerIDs(4)
			tt := "t"
			var acts, resl, accepts, pens []string
			var pensj []int
			invalid := func() (n float64) { return }
			if scored {
				gs := ps.rt.(*GossipSubRouter)
				vfEval(ps, func() {
					for _, f := range authors[2:] {
						ps.peers[f] = newRpcQueue(64)
						gs.OnNewOutboundStream(f, GossipSubID_v11, nil)
					}
				})
				invalid = func() (n float64) {
					vfEval(ps, func() {
						for _, f := range authors[2:] {
							if st, ok := gs.score.peerStats[f]; ok {
								for _, ts := range st.topics {
									n += ts.invalidMessageDeliveries
								}
								n += st.behaviourPenalty
							}
						}
					})
					return
				}
			}
			resj := map[string]string{}
			for i, m := range msgs {
				data := fmt.Sprintf("m%d", i)
				var nonceBefore uint64
				if b, ok := st[authors[m.Author]]; ok && len(b) >= 8 {
					nonceBefore = binary.BigEndian.Uint64(b)
				}
				penBefore := invalid()
				overlap := scored && rng.Intn(3) != 0
				if overlap {
					holdMu.Lock()
					gate = make(chan struct{})
					holdMu.Unlock()
				}
				vfEval(ps, func() {
					ps.handleIncomingRPC(&RPC{RPC: pb.RPC{Publish: []*pb.Message{{Data: []byte(data), Topic: &tt, From: []byte(authors[m.Author]), Seqno: m.Seq}}}, from: authors[3]})
				})
				synctest.Wait()
				if scored {
					// the second forwarder's copy: a duplicate, either of a message still being validated or of a decided one
					vfEval(ps, func() {
						ps.handleIncomingRPC(&RPC{RPC: pb.RPC{Publish: []*pb.Message{{Data: []byte(data), Topic: &tt, From: []byte(authors[m.Author]), Seqno: m.Seq}}}, from: authors[2]})
					})
					synctest.Wait()
				}
				if overlap {
					holdMu.Lock()
					close(gate)
					gate = nil
					holdMu.Unlock()
					synctest.Wait()
				}
				if invalid() > penBefore {
					pens = append(pens, fmt.Sprint(i))
					pensj = append(pensj, i)
				}
				got := false
				for {
					select {
					case x := <-sub.ch:
						if string(x.Data) == data {
							got = true
						}
						continue
					default:
					}
					break
				}
				acts = append(acts, fmt.Sprintf("AStart %d %d %s", i, m.Author, vfBytesLit(m.Seq)), fmt.Sprintf("AP1 %d", i))
				if binary.BigEndian.Uint64(m.Seq) > nonceBefore {
					acts = append(acts, fmt.Sprintf("AP2 %d", i)) // the second phase exists only when the first one does not already ignore
				}
				v := "Ignore"
				if got {
					v = "Accept"
					accepts = append(accepts, fmt.Sprintf("(%d, %d%%N)", m.Author, binary.BigEndian.Uint64(m.Seq)))
				}
				resl = append(resl, fmt.Sprintf("(%d, %s)", i, v))
				resj[fmt.Sprint(i)] = v
			}
			var storel []string
			storej := map[string]uint64{}
			for a, p := range authors {
				if b, ok := st[p]; ok && len(b) >= 8 {
					storel = append(storel, fmt.Sprintf("(%d, %d%%N)", a, binary.BigEndian.Uint64(b)))
					storej[fmt.Sprint(a)] = binary.BigEndian.Uint64(b)
				}
			}
			lit = fmt.Sprintf("{| c_ops := [%s]; c_results := [%s]; c_store := [%s]; c_accepts := [%s]; c_penalised := [%s] |}",
				strings.Join(acts, "; "), strings.Join(resl, "; "), strings.Join(storel, "; "), strings.Join(accepts, "; "), strings.Join(pens, "; "))
			rec = map[string]any{"msgs": msgs, "delivered": resj, "store": storej, "seqno_validator_inline": seqInline, "topic_validator_inline": topInline, "second_default_inline": extraInline,
				"gossipsub_with_scoring_and_second_forwarder": scored, "forwarders_penalised_after_message": pensj}
			sub.Cancel()
			cancel()
			synctest.Wait()
		})
		cs.add(lit, rec, true)
		cs.kind(fmt.Sprintf("seq-inline=%v top-inline=%v scored=%v", seqInline, topInline, scored))
	}
	cs.flush("a real node (floodsub, lax no-sign policy, message id = payload) with the sequence-number validator as first default validator (inline or asynchronous), an accepting second default validator and an accepting topic validator (each inline or asynchronous); 2..7 messages of two authors with replays, decreasing runs, zero and the maximum value arrive one after the other from a peer; delivered to the subscription = accepted; every third history runs on a gossipsub node with peer scoring where a second forwarder sends its copy of every message while the first copy is still held in an asynchronous topic validator (or right after the verdict) and the invalid-delivery / behaviour-penalty counters of both forwarders are read after every message: no accepted or ignored message may raise them; " +
		"non-trivial = always; distinct = hash of messages+observations")
}
