//go:build verif

package pubsub

import (
	"context"
	"fmt"
	"math/rand"
	"sort"
	"strings"
	"sync"
	"testing"
	"testing/synctest"
	"time"

	pb "github.com/libp2p/go-libp2p-pubsub/pb"
	"github.com/libp2p/go-libp2p-pubsub/timecache"
	"github.com/libp2p/go-libp2p/core/peer"
)

// C02 (b): a real node with ONE validation worker, a content-based message ID, an optional inline
// validator that can block the worker, copies arriving in RPCs from fake peers, local publishes, and
// virtual time crossing the seen-cache TTL; against Model/Dedup.v.

type vfC02Tracer struct {
	vfNopTracer
	log func(string)
}

func (tr *vfC02Tracer) DuplicateMessage(m *Message) { tr.log("EDup " + string(m.Data)) }
func (tr *vfC02Tracer) RejectMessage(m *Message, reason string) {
	if reason == RejectValidationQueueFull {
		tr.log("EQFull " + string(m.Data))
	}
}

type vfC02Step struct {
	Op  string   `json:"op"`
	Evs []string `json:"events"`
}

type vfC02Cfg struct {
	LastSeen bool
	TTL      time.Duration
	HasVal   bool
	Verdicts map[int]ValidationResult
	Blocks   map[int]bool
	QCap     int
	TopicID  bool // per-topic message-ID function instead of the global one
}

func vfC02Run(t *testing.T, cfg vfC02Cfg, nsteps int, next func(busy bool) string) []vfC02Step {
	var steps []vfC02Step
	synctest.Test(t, func(t *testing.T) {
		ctx, cancel := context.WithCancel(context.Background())
		defer cancel()
		h := vfHosts(t, 1)[0]
		var mu sync.Mutex
		var evs []string
		logev := func(s string) { mu.Lock(); evs = append(evs, s); mu.Unlock() }
		idfn := func(m *pb.Message) string { return "id:" + string(m.Data) }
		strat := timecache.Strategy_FirstSeen
		if cfg.LastSeen {
			strat = timecache.Strategy_LastSeen
		}
		opts := []Option{WithMessageSignaturePolicy(StrictNoSign), WithSeenMessagesTTL(cfg.TTL), WithSeenMessagesStrategy(strat),
			WithValidateWorkers(1), WithValidateQueueSize(cfg.QCap), WithRawTracer(&vfC02Tracer{log: logev})}
		if !cfg.TopicID {
			opts = append(opts, WithMessageIdFn(idfn))
		}
		ps, err := NewFloodSub(ctx, h, opts...)
		if err != nil {
			t.Fatal(err)
		}
		release := make(chan ValidationResult)
		if cfg.HasVal {
			err = ps.RegisterTopicValidator("t", func(ctx context.Context, _ peer.ID, m *Message) ValidationResult {
				var id int
				fmt.Sscanf(string(m.Data), "%d", &id)
				logev(fmt.Sprintf("EInvoke %d", id))
				if cfg.Blocks[id] && m.ReceivedFrom != h.ID() {
					select {
					case v := <-release:
						return v
					case <-ctx.Done():
						return ValidationIgnore
					}
				}
				if v, ok := cfg.Verdicts[id]; ok {
					return v
				}
				return ValidationAccept
			}, WithValidatorInline(true))
			if err != nil {
				t.Fatal(err)
			}
		}
		var topic *Topic
		if cfg.TopicID {
			topic, err = ps.Join("t", WithTopicMessageIdFn(idfn))
		} else {
			topic, err = ps.Join("t")
		}
		if err != nil {
			t.Fatal(err)
		}
		sub, err := topic.Subscribe()
		if err != nil {
			t.Fatal(err)
		}
		go func() {
			for {
				m, err := sub.Next(ctx)
				if err != nil {
					return
				}
				logev("EDeliver " + string(m.Data))
			}
		}()
		fake := vfPeerIDs(3)
		tt := "t"
		busy := false
		for stepi := 0; stepi < nsteps; stepi++ {
			op := next(busy)
			f := strings.Fields(op)
			var lit string
			switch f[0] {
			case "recv":
				var msgs []*pb.Message
				var ids []string
				for _, x := range f[1:] {
					msgs = append(msgs, &pb.Message{Data: []byte(x), Topic: &tt})
					ids = append(ids, x)
				}
				vfEval(ps, func() {
					ps.handleIncomingRPC(&RPC{RPC: pb.RPC{Publish: msgs}, from: fake[len(ids)%3]})
				})
				lit = "ORecv [" + strings.Join(ids, "; ") + "]"
			case "release":
				if !busy {
					continue
				}
				v := map[string]ValidationResult{"accept": ValidationAccept, "reject": ValidationReject, "ignore": ValidationIgnore}[f[1]]
				release <- v
				lit = "ORelease " + map[string]string{"accept": "VAccept", "reject": "VReject", "ignore": "VIgnore"}[f[1]]
			case "local":
				err := topic.Publish(ctx, []byte(f[1]))
				logev(fmt.Sprintf("ELocal %v", err == nil))
				lit = "OLocal " + f[1]
			case "close":
				// Topic.Close with a live subscription is refused and must change nothing: the model sees no time pass
				if err := topic.Close(); err == nil {
					t.Fatal("Topic.Close succeeded with a live subscription")
				}
				lit = "OSleep (0)%Z"
			case "sleep":
				var ms int64
				fmt.Sscanf(f[1], "%d", &ms)
				time.Sleep(time.Duration(ms) * time.Millisecond)
				lit = fmt.Sprintf("OSleep (%d)%%Z", ms*1000000)
			}
			synctest.Wait()
			mu.Lock()
			got := evs
			evs = nil
			mu.Unlock()
			sort.Strings(got)
			// track whether the worker is parked in a blocking validator: an invocation of a blocking id
			// from a remote copy without a following release
			for _, e := range got {
				var id int
				if n, _ := fmt.Sscanf(e, "EInvoke %d", &id); n == 1 && cfg.Blocks[id] && f[0] != "local" {
					busy = true
				}
			}
			if f[0] == "release" {
				busy = false
				for _, e := range got {
					var id int
					if n, _ := fmt.Sscanf(e, "EInvoke %d", &id); n == 1 && cfg.Blocks[id] {
						busy = true
					}
				}
			}
			steps = append(steps, vfC02Step{Op: lit, Evs: got})
		}
		cancel()
		synctest.Wait()
	})
	return steps
}

func vfC02Lit(cfg vfC02Cfg, steps []vfC02Step) string {
	sg := "FirstSeen"
	if cfg.LastSeen {
		sg = "LastSeen"
	}
	var vs []string
	for id, v := range cfg.Verdicts {
		vs = append(vs, fmt.Sprintf("(%d, %s)", id, map[ValidationResult]string{ValidationAccept: "VAccept", ValidationReject: "VReject", ValidationIgnore: "VIgnore"}[v]))
	}
	sort.Strings(vs)
	var bl []int
	for id := range cfg.Blocks {
		bl = append(bl, id)
	}
	sort.Ints(bl)
	var ss []string
	for _, s := range steps {
		var es []string
		for _, e := range s.Evs {
			f := strings.Fields(e)
			if f[0] == "ELocal" {
				es = append(es, "ELocal "+f[1])
			} else {
				es = append(es, f[0]+" "+f[1])
			}
		}
		ss = append(ss, fmt.Sprintf("(%s, [%s])", s.Op, strings.Join(es, "; ")))
	}
	return fmt.Sprintf("{| n_strat := %s; n_ttl := (%d)%%Z;\n   n_cfg := {| has_val := %v; verdict_of := [%s]; blocks := %s; qcap := %d; interval := 60000000000%%Z |};\n   n_steps := [%s] |}",
		sg, cfg.TTL.Nanoseconds(), cfg.HasVal, strings.Join(vs, "; "), vfNats(bl), cfg.QCap, strings.Join(ss, ";\n     "))
}

func TestVF_C02Node(t *testing.T) {
	cs := vfNewCases(t, "c02n", "From PS Require Import Model.TimeCache Model.Dedup Run.C02Run.", "ncase", "check_ncase")
	cs.shard = 100
	rng := vfRng(2)
	ncases := vfN(140, 1500)
	for c := 0; c < ncases; c++ {
		cfg := vfC02Cfg{LastSeen: rng.Intn(2) == 0, TTL: time.Duration(60+30*rng.Intn(4)) * time.Second, HasVal: rng.Intn(4) != 0,
			Verdicts: map[int]ValidationResult{}, Blocks: map[int]bool{}, QCap: 2 + rng.Intn(4), TopicID: rng.Intn(3) == 0}
		nids := 2 + rng.Intn(4)
		for id := 0; id < nids; id++ {
			switch rng.Intn(6) {
			case 0:
				cfg.Verdicts[id] = ValidationReject
			case 1:
				cfg.Verdicts[id] = ValidationIgnore
			}
			if cfg.HasVal && rng.Intn(3) == 0 {
				cfg.Blocks[id] = true
			}
		}
		first := true
		next := func(busy bool) string {
			if first {
				first = false
				return "sleep 500"
			}
			r := rng.Intn(100)
			switch {
			case busy && r < 30:
				cs.kind("release")
				return "release " + []string{"accept", "accept", "reject", "ignore"}[rng.Intn(4)]
			case r < 60:
				k := 1 + rng.Intn(cfg.QCap)
				if busy {
					k = 1 + rng.Intn(cfg.QCap+2) // the worker is parked: overflowing the queue is deterministic
				}
				ids := make([]string, k)
				for j := range ids {
					if j > 0 && rng.Intn(3) == 0 {
						ids[j] = ids[j-1] // duplicate inside one RPC
					} else {
						ids[j] = fmt.Sprint(rng.Intn(nids))
					}
				}
				cs.kind("recv")
				return "recv " + strings.Join(ids, " ")
			case r < 75:
				cs.kind("local")
				return fmt.Sprintf("local %d", rng.Intn(nids))
			case r < 80:
				cs.kind("refused-close")
				return "close"
			default:
				cs.kind("sleep")
				if busy {
					return "sleep 1000"
				}
				// land just before / at / after ttl and ttl + sweep interval
				return fmt.Sprintf("sleep %d", []int64{1000, 30000, int64(cfg.TTL/time.Millisecond) - 1000, int64(cfg.TTL / time.Millisecond), int64(cfg.TTL/time.Millisecond) + 61000}[rng.Intn(5)])
			}
		}
		steps := vfC02Run(t, cfg, 7+rng.Intn(20), next)
		lit := vfC02Lit(cfg, steps)
		dupSeen, expired := false, false
		for _, s := range steps {
			for _, e := range s.Evs {
				if strings.HasPrefix(e, "EDup") {
					dupSeen = true
				}
			}
			if strings.HasPrefix(s.Op, "OSleep") {
				expired = true
			}
		}
		cs.add(lit, map[string]any{"cfg": fmt.Sprintf("%+v", cfg), "steps": steps}, dupSeen && expired)
	}
	// batch publishing on a gossipsub node, the batch reused across rounds
	for c := vfN(40, 400); c > 0; c-- {
		cfg := vfC02Cfg{LastSeen: rng.Intn(2) == 0, TTL: 120 * time.Second, HasVal: rng.Intn(2) == 0, Verdicts: map[int]ValidationResult{}, Blocks: map[int]bool{}, QCap: 8}
		for id := 0; id < 12; id++ {
			switch rng.Intn(8) {
			case 0:
				cfg.Verdicts[id] = ValidationReject
			case 1:
				cfg.Verdicts[id] = ValidationIgnore
			}
		}
		steps := vfC02BatchRun(t, rng, cfg)
		cs.add(vfC02Lit(cfg, steps), map[string]any{"cfg": fmt.Sprintf("%+v", cfg), "batch_publishing": true, "steps": steps}, true)
		cs.kind("batch-history")
	}
	cs.flush("real node (floodsub, StrictNoSign, content-based global or per-topic message ID, both seen-cache strategies, one validation worker, small validation queue) fed RPCs with duplicate copies, local publishes of the same IDs, a validator that blocks the worker so that copies pile up between the seen check and markSeen, and sleeps landing around TTL and TTL+sweep interval; plus batch histories on a gossipsub node: a MessageBatch reused for two or three rounds, rounds handed over while the event loop is held and the batch refilled before the loop takes them, ids added twice, rejecting / ignoring validators; " +
		"non-trivial = at least one duplicate was suppressed and time advanced; distinct = hash of config+script+observations")
}

// Batch publishing (gossipsub): a MessageBatch reused for several rounds; a round may still sit in the hand-off channel (the
// event loop is held) while the next messages are added to the same batch. Every id added to a batch that is then published
// is delivered exactly once; in model terms each AddToBatch + its round's PublishBatch is one local publication.
func vfC02BatchRun(t *testing.T, rng *rand.Rand, cfg vfC02Cfg) []vfC02Step {
	var steps []vfC02Step
	synctest.Test(t, func(t *testing.T) {
		ctx, cancel := context.WithCancel(context.Background())
		defer cancel()
		h := vfHosts(t, 1)[0]
		var mu sync.Mutex
		var evs []string
		logev := func(s string) { mu.Lock(); evs = append(evs, s); mu.Unlock() }
		idfn := func(m *pb.Message) string { return "id:" + string(m.Data) }
		strat := timecache.Strategy_FirstSeen
		if cfg.LastSeen {
			strat = timecache.Strategy_LastSeen
		}
		var holdMu sync.Mutex
		var holdGate chan struct{}
		ps, err := NewGossipSub(ctx, h, WithMessageSignaturePolicy(StrictNoSign), WithSeenMessagesTTL(cfg.TTL), WithSeenMessagesStrategy(strat),
			WithRawTracer(&vfC02Tracer{log: logev}), WithMessageIdFn(idfn))
		if err != nil {
			t.Fatal(err)
		}
		if cfg.HasVal {
			err = ps.RegisterTopicValidator("t", func(ctx context.Context, _ peer.ID, m *Message) ValidationResult {
				var id int
				fmt.Sscanf(string(m.Data), "%d", &id)
				logev(fmt.Sprintf("EInvoke %d", id))
				holdMu.Lock()
				g := holdGate
				holdMu.Unlock()
				if g != nil {
					<-g
				}
				if v, ok := cfg.Verdicts[id]; ok {
					return v
				}
				return ValidationAccept
			}, WithValidatorInline(true))
			if err != nil {
				t.Fatal(err)
			}
		}
		topic, err := ps.Join("t")
		if err != nil {
			t.Fatal(err)
		}
		sub, err := topic.Subscribe()
		if err != nil {
			t.Fatal(err)
		}
		go func() {
			for {
				m, err := sub.Next(ctx)
				if err != nil {
					return
				}
				logev("EDeliver " + string(m.Data))
			}
		}()
		time.Sleep(500 * time.Millisecond)
		steps = append(steps, vfC02Step{Op: "OSleep (500000000)%Z"})
		var batch MessageBatch
		var order []int
		results := map[int][]bool{}
		next := 0
		add := func() {
			id := next
			if len(order) > 0 && rng.Intn(6) == 0 {
				id = order[rng.Intn(len(order))] // an id that was added before: not added again
			} else {
				next++
			}
			err := topic.AddToBatch(ctx, &batch, []byte(fmt.Sprint(id)))
			order = append(order, id)
			results[id] = append(results[id], err == nil)
		}
		rounds := 2 + rng.Intn(2)
		for r := 0; r < rounds; r++ {
			for k := 1 + rng.Intn(3); k > 0; k-- {
				add()
			}
			if cfg.HasVal && rng.Intn(3) != 0 {
				// one more AddToBatch is parked inside its validator; the round is handed over while the event loop is busy; the
				// parked call then completes (the batch is refilled) before the loop gets to the round
				holdMu.Lock()
				holdGate = make(chan struct{})
				hg := holdGate
				holdMu.Unlock()
				added := make(chan struct{})
				go func() { add(); close(added) }()
				synctest.Wait()
				gate := make(chan struct{})
				done := make(chan struct{})
				go func() { vfEval(ps, func() { <-gate }); close(done) }()
				synctest.Wait()
				if err := ps.PublishBatch(&batch); err != nil {
					t.Fatal(err)
				}
				holdMu.Lock()
				holdGate = nil
				holdMu.Unlock()
				close(hg)
				<-added
				close(gate)
				<-done
			} else if err := ps.PublishBatch(&batch); err != nil {
				t.Fatal(err)
			}
			synctest.Wait()
		}
		if err := ps.PublishBatch(&batch); err != nil {
			t.Fatal(err)
		}
		synctest.Wait()
		vfEval(ps, func() {})
		synctest.Wait()
		mu.Lock()
		got := evs
		mu.Unlock()
		// one model step per AddToBatch, in call order, with everything observed for that id at its first occurrence
		seen := map[int]bool{}
		occ := map[int]int{}
		for _, id := range order {
			var mine []string
			if !seen[id] {
				seen[id] = true
				for _, e := range got {
					var x int
					var k string
					if n, _ := fmt.Sscanf(e, "%s %d", &k, &x); n == 2 && x == id {
						mine = append(mine, e)
					}
				}
			}
			mine = append(mine, fmt.Sprintf("ELocal %v", results[id][occ[id]]))
			occ[id]++
			sort.Strings(mine)
			steps = append(steps, vfC02Step{Op: fmt.Sprintf("OLocal %d", id), Evs: mine})
		}
		cancel()
		synctest.Wait()
	})
	return steps
}

var _ = rand.Int
