//go:build verif

package pubsub

import (
	"context"
	"fmt"
	"math/rand"
	"sort"
	"strings"
	"sync"
	"testing"
	"testing/synctest"
	"time"

	pb "github.com/libp2p/go-libp2p-pubsub/pb"
	"github.com/libp2p/go-libp2p/core/peer"
	"github.com/libp2p/go-libp2p/core/protocol"
)

// Level A router harness: one real gossipsub node whose heartbeat timer is parked; fake peers are
// injected inside the event loop (outbound queue + OnNewOutboundStream); remote subscriptions, GRAFT
// and PRUNE go through handleIncomingRPC; Join / Leave / heartbeat are called on the router inside the
// event loop; scores come from an application-specific score table (all other score components are
// switched off), so that gs.score.Score(p) is exactly the integer in the table.

type vfRTracer struct {
	vfNopTracer
	mu  sync.Mutex
	evs []string // "G p t" | "P p t" | "J t" | "L t"
	idx func(peer.ID) int
	drops []string // GRAFT / PRUNE of RPCs that were dropped (queue full), as Gallina ctl terms
}

func vfCtlTerms(i int, c *pb.ControlMessage) (ctl []string) {
	if c == nil {
		return
	}
	for _, g := range c.Graft {
		ctl = append(ctl, fmt.Sprintf("CGraft %d %s", i, g.GetTopicID()[1:]))
	}
	for _, pr := range c.Prune {
		bo := "None"
		if pr.Backoff != nil {
			bo = fmt.Sprintf("(Some (%d)%%Z)", *pr.Backoff)
		}
		ctl = append(ctl, fmt.Sprintf("CPrune %d %s %s", i, pr.GetTopicID()[1:], bo))
	}
	return
}

func (tr *vfRTracer) DropRPC(r *RPC, p peer.ID) {
	tr.mu.Lock()
	tr.drops = append(tr.drops, vfCtlTerms(tr.idx(p), r.Control)...)
	tr.mu.Unlock()
}
func (tr *vfRTracer) takeDrops() []string {
	tr.mu.Lock()
	defer tr.mu.Unlock()
	d := tr.drops
	tr.drops = nil
	return d
}

func (tr *vfRTracer) Graft(p peer.ID, t string) { tr.mu.Lock(); tr.evs = append(tr.evs, fmt.Sprintf("G %d %s", tr.idx(p), t)); tr.mu.Unlock() }
func (tr *vfRTracer) Prune(p peer.ID, t string) { tr.mu.Lock(); tr.evs = append(tr.evs, fmt.Sprintf("P %d %s", tr.idx(p), t)); tr.mu.Unlock() }
func (tr *vfRTracer) Join(t string)             { tr.mu.Lock(); tr.evs = append(tr.evs, "J "+t); tr.mu.Unlock() }
func (tr *vfRTracer) Leave(t string)            { tr.mu.Lock(); tr.evs = append(tr.evs, "L "+t); tr.mu.Unlock() }
func (tr *vfRTracer) take() []string {
	tr.mu.Lock()
	defer tr.mu.Unlock()
	e := tr.evs
	tr.evs = nil
	return e
}

type vfRParams struct {
	D, Dlo, Dhi, Dscore, Dout int
	OGTicks                  uint64
	OGPeers                  int
	PruneBackoff, UnsubBackoff, GraftFlood, FanoutTTL time.Duration
}

type vfRNode struct {
	t      *testing.T
	ps     *PubSub
	gs     *GossipSubRouter
	tr     *vfRTracer
	pids   []peer.ID
	scores map[int]int
	t0     time.Time
	P      vfRParams
	ctx    context.Context
}

// score thresholds of the harness nodes; the gossip histories move them (vfSetThresholds), everything else uses these values
var (
	vfOGThreshold = 2
	vfPublishThr  = -3
	vfGossipThr   = -2
	vfGraylistThr = -5
	vfAcceptPX    = 2
)

func vfSetThresholds(rng *rand.Rand) (reset func()) {
	o := [5]int{vfOGThreshold, vfPublishThr, vfGossipThr, vfGraylistThr, vfAcceptPX}
	vfGossipThr = -rng.Intn(4)
	vfPublishThr = vfGossipThr - rng.Intn(3)
	vfGraylistThr = vfPublishThr - rng.Intn(3)
	return func() { vfOGThreshold, vfPublishThr, vfGossipThr, vfGraylistThr, vfAcceptPX = o[0], o[1], o[2], o[3], o[4] }
}

func vfNewRouterNode(t *testing.T, ctx context.Context, P vfRParams, npeers int, extra ...Option) *vfRNode {
	h := vfHosts(t, 1)[0]
	n := &vfRNode{t: t, pids: vfPeerIDs(npeers), scores: map[int]int{}, P: P, ctx: ctx}
	idx := map[peer.ID]int{}
	for i, p := range n.pids {
		idx[p] = i
	}
	n.tr = &vfRTracer{idx: func(p peer.ID) int {
		if i, ok := idx[p]; ok {
			return i
		}
		return 999
	}}
	gp := DefaultGossipSubParams()
	gp.D, gp.Dlo, gp.Dhi, gp.Dscore, gp.Dout = P.D, P.Dlo, P.Dhi, P.Dscore, P.Dout
	gp.OpportunisticGraftTicks, gp.OpportunisticGraftPeers = P.OGTicks, P.OGPeers
	gp.PruneBackoff, gp.UnsubscribeBackoff, gp.GraftFloodThreshold, gp.FanoutTTL = P.PruneBackoff, P.UnsubBackoff, P.GraftFlood, P.FanoutTTL
	gp.HeartbeatInitialDelay, gp.HeartbeatInterval = 100000 * time.Hour, 100000 * time.Hour
	sp := &PeerScoreParams{
		AppSpecificScore: func(p peer.ID) float64 { return float64(n.scores[idx[p]]) }, AppSpecificWeight: 1,
		DecayInterval: 100000 * time.Hour, DecayToZero: 0.01, RetainScore: time.Minute, Topics: map[string]*TopicScoreParams{},
	}
	th := &PeerScoreThresholds{GossipThreshold: float64(vfGossipThr), PublishThreshold: float64(vfPublishThr), GraylistThreshold: float64(vfGraylistThr), AcceptPXThreshold: float64(vfAcceptPX), OpportunisticGraftThreshold: float64(vfOGThreshold)}
	opts := append([]Option{WithGossipSubParams(gp), WithPeerScore(sp, th), WithRawTracer(n.tr), WithMessageSignaturePolicy(StrictNoSign),
		WithMessageIdFn(func(m *pb.Message) string { return string(m.Data) }), WithFloodPublish(false)}, extra...)
	ps, err := NewGossipSub(ctx, h, opts...)
	if err != nil {
		t.Fatal(err)
	}
	n.ps, n.gs = ps, ps.rt.(*GossipSubRouter)
	n.t0 = time.Now()
	return n
}

var vfProtos = []protocol.ID{FloodSubID, GossipSubID_v10, GossipSubID_v11, GossipSubID_v12}

func (n *vfRNode) addPeer(p int, proto protocol.ID, outbound bool) {
	vfEval(n.ps, func() {
		n.ps.peers[n.pids[p]] = newRpcQueue(4096)
		n.gs.OnNewOutboundStream(n.pids[p], proto, nil)
		n.gs.outbound[n.pids[p]] = outbound
	})
}
func (n *vfRNode) removePeer(p int) {
	vfEval(n.ps, func() {
		if q, ok := n.ps.peers[n.pids[p]]; ok {
			q.Close()
			delete(n.ps.peers, n.pids[p])
		}
		n.ps.clearPeerFromTopicsState(n.pids[p])
		n.gs.OnClosedOutboundStream(n.pids[p])
	})
}
func (n *vfRNode) recv(p int, rpc *pb.RPC) {
	vfEval(n.ps, func() { n.ps.handleIncomingRPC(&RPC{RPC: *rpc, from: n.pids[p]}) })
}
func vfTopic(t int) string { return fmt.Sprintf("t%d", t) }

// drain pops everything queued for every fake peer and returns the control messages as Gallina ctl terms
func (n *vfRNode) drain() (ctl []string, rpcs map[int][]*RPC) {
	rpcs = map[int][]*RPC{}
	vfEval(n.ps, func() {
		for i, p := range n.pids {
			q, ok := n.ps.peers[p]
			if !ok {
				continue
			}
			for q.queue.Len() > 0 {
				cctx, cc := context.WithCancel(n.ctx)
				cc()
				out, err := q.Pop(cctx)
				if err != nil {
					break
				}
				rpcs[i] = append(rpcs[i], out)
				ctl = append(ctl, vfCtlTerms(i, out.Control)...)
			}
		}
	})
	sort.Strings(ctl)
	return
}

func (n *vfRNode) scoreLit() string {
	var ss []string
	for i := range n.pids {
		if v := n.scores[i]; v != 0 {
			ss = append(ss, fmt.Sprintf("(%d, (%d)%%Z)", i, v))
		}
	}
	return "[" + strings.Join(ss, "; ") + "]"
}

// snapshot of mesh / fanout / backoff as Gallina association lists (sorted)
func (n *vfRNode) snapshot() string {
	var mesh, fan, bo []string
	vfEval(n.ps, func() {
		idx := n.tr.idx
		set := func(m map[peer.ID]struct{}) string {
			var l []int
			for p := range m {
				l = append(l, idx(p))
			}
			sort.Ints(l)
			return vfNats(l)
		}
		for t, m := range n.gs.mesh {
			mesh = append(mesh, fmt.Sprintf("(%s, %s)", t[1:], set(m)))
		}
		for t, m := range n.gs.fanout {
			fan = append(fan, fmt.Sprintf("(%s, %s)", t[1:], set(m)))
		}
		for t, m := range n.gs.backoff {
			var es []string
			for p, e := range m {
				es = append(es, fmt.Sprintf("(%d, (%d)%%Z)", idx(p), e.Sub(n.t0).Nanoseconds()))
			}
			sort.Strings(es)
			bo = append(bo, fmt.Sprintf("(%s, [%s])", t[1:], strings.Join(es, "; ")))
		}
	})
	sort.Strings(mesh)
	sort.Strings(fan)
	sort.Strings(bo)
	return fmt.Sprintf("{| sn_mesh := [%s]; sn_fanout := [%s]; sn_backoff := [%s] |}", strings.Join(mesh, "; "), strings.Join(fan, "; "), strings.Join(bo, "; "))
}

func (n *vfRNode) penalty(p int) int {
	v := 0
	vfEval(n.ps, func() {
		if st, ok := n.gs.score.peerStats[n.pids[p]]; ok {
			v = int(st.behaviourPenalty + 0.5)
		}
	})
	return v
}

func vfRParamsLit(P vfRParams) string {
	return fmt.Sprintf("{| pD := %d; pDlo := %d; pDhi := %d; pDscore := %d; pDout := %d; pOGTicks := %d; pOGPeers := %d; pOGThreshold := %d; pPruneBackoff := %d; pUnsubBackoff := %d; pGraftFlood := %d; pSlack := 2000000000; pFanoutTTL := %d; pPublishThr := (%d) |}%%Z",
		P.D, P.Dlo, P.Dhi, P.Dscore, P.Dout, P.OGTicks, P.OGPeers, vfOGThreshold, P.PruneBackoff.Nanoseconds(), P.UnsubBackoff.Nanoseconds(), P.GraftFlood.Nanoseconds(), P.FanoutTTL.Nanoseconds(), vfPublishThr)
}

func vfRandParams(rng *rand.Rand) vfRParams {
	P := vfRParams{OGTicks: uint64(1 + rng.Intn(3)), OGPeers: 1 + rng.Intn(2),
		PruneBackoff: time.Duration(5+rng.Intn(20)) * time.Second, UnsubBackoff: time.Duration(2+rng.Intn(8)) * time.Second, FanoutTTL: time.Duration(10+rng.Intn(20)) * time.Second}
	P.GraftFlood = time.Duration(1+rng.Intn(int(P.PruneBackoff/time.Second)-1)) * time.Second
	if rng.Intn(12) == 0 {
		return P // bootstrapper: all degree parameters zero (Dscore too)
	}
	P.D = 3 + rng.Intn(4)
	P.Dlo = 2 + rng.Intn(P.D-1)
	P.Dhi = P.D + rng.Intn(4)
	P.Dscore = rng.Intn(P.Dhi + 1)
	maxOut := P.D/2 - 1
	if P.Dlo-1 < maxOut {
		maxOut = P.Dlo - 1
	}
	if maxOut > 0 {
		P.Dout = rng.Intn(maxOut + 1)
	}
	return P
}

// one random router history; returns the Gallina case literal and a JSON-able record
func vfRouterHistory(t *testing.T, rng *rand.Rand, nops int, style int) (lit string, rec map[string]any, nontrivial bool) {
	synctest.Test(t, func(t *testing.T) {
		ctx, cancel := context.WithCancel(context.Background())
		defer cancel()
		P := vfRandParams(rng)
		np := 6 + rng.Intn(8)
		if style == 1 {
			// over-subscription + opportunistic grafting: small Dscore, frequent OG ticks, many peers
			for P.D == 0 || P.Dhi == P.D {
				P = vfRandParams(rng)
			}
			P.Dscore = rng.Intn(2)
			P.OGTicks = 1
			np = P.Dhi + 4 + rng.Intn(4)
		}
		if style == 11 {
			// the first PRUNEs a topic ever sees come from a heartbeat that cuts an over-full mesh (two outbound peers were admitted
			// beyond Dhi, so nothing was refused before) and that is an opportunistic-graft tick with low-scoring survivors: the
			// peers just pruned must not be grafted again by the same heartbeat
			for P.D == 0 {
				P = vfRandParams(rng)
			}
			P.D, P.Dlo, P.Dhi, P.Dscore, P.Dout = 3, 2, 4, 0, 0
			P.OGTicks, P.OGPeers = 1, 2
			np = 6
		}
		if style == 10 {
			// a direct peer subscribed to the topic when the node joins it: it is never grafted
			for P.D == 0 {
				P = vfRandParams(rng)
			}
			P.D, P.Dlo, P.Dhi, P.Dscore, P.Dout = 4, 3, 6, 1, 0
			np = 4
		}
		if style == 9 {
			// a mesh over Dhi whose only outbound member has the lowest score: the cut must keep it (Dout = 1)
			for P.D == 0 {
				P = vfRandParams(rng)
			}
			P.D, P.Dlo, P.Dhi, P.Dscore, P.Dout = 4, 3, 5, 1, 1
			np = 6
		}
		if style == 8 {
			// one heartbeat cuts the over-subscribed mesh of topic 0 and fills the empty mesh of topic 1 from the same peers
			for P.D == 0 {
				P = vfRandParams(rng)
			}
			P.D, P.Dlo, P.Dhi, P.Dscore, P.Dout = 3, 3, 6, 1, 0
			np = 6
		}
		if style == 7 {
			for P.D == 0 {
				P = vfRandParams(rng)
			}
			P.D, P.Dlo, P.Dhi, P.Dscore, P.Dout = 3, 3, 4, 1, 0
			np = 3
		}
		if style == 4 {
			// a PRUNE naming a long backoff, then a GRAFT from the same peer inside it (refused, and the backoff must only ever be
			// extended), then enough time and heartbeats for a shortened entry to expire and be swept, with the mesh below Dlo
			for P.D == 0 {
				P = vfRandParams(rng)
			}
			P.D, P.Dlo, P.Dhi, P.Dscore, P.Dout = 3, 3, 4, 1, 0
			P.PruneBackoff, P.GraftFlood = 5*time.Second, 2*time.Second
			np = 3
		}
		n := vfNewRouterNode(t, ctx, P, np)
		ntopics := 1 + rng.Intn(2)
		if style == 8 {
			ntopics = 2 // the scenario needs both topics
		}
		// scripted prefix: forced values of r (the operation selector) with forced arguments
		type forced struct {
			r, p, tp int
			d    time.Duration
			bo   int // backoff seconds named in a forced PRUNE (0 = random)
			out  int // direction of a forced new peer: 0 random, 1 inbound, 2 outbound
		}
		var script []forced
		if style == 1 {
			// (every heartbeat is an opportunistic-graft tick in half of these)
			script = append(script, forced{r: 30, tp: 0}) // join first (nobody there yet)
			for p := 0; p < np; p++ {
				script = append(script, forced{r: 0, p: p})
			}
			ngr := np
			if rng.Intn(2) == 0 {
				ngr = P.Dhi // exactly up to Dhi: nobody is refused, so no backoff entry exists before the heartbeat
			}
			for p := 0; p < ngr; p++ {
				script = append(script, forced{r: 45, p: p, tp: 0}) // they GRAFT us
			}
			script = append(script, forced{r: 70}, forced{r: 70})
		}
		if style == 2 {
			// a backoff that must survive the peer's departure and return across a clearBackoff sweep
			script = append(script, forced{r: 0, p: 0}, forced{r: 0, p: 1}, forced{r: 0, p: 2}, forced{r: 30, tp: 0},
				forced{r: 55, p: 0, tp: 0}, forced{r: 20, p: 0})
			for k := 0; k < 15; k++ {
				script = append(script, forced{r: 70})
			}
			script = append(script, forced{r: 0, p: 0}, forced{r: 70}, forced{r: 90, d: time.Second}, forced{r: 70})
		}
		if style == 3 {
			// leave a topic, publish to it from outside (fanout), join again while the unsubscribe backoff is running
			for p := 0; p < 4; p++ {
				script = append(script, forced{r: 0, p: p})
			}
			script = append(script, forced{r: 30, tp: 0}, forced{r: 70}, forced{r: 40, tp: 0}, forced{r: 62, tp: 0}, forced{r: 30, tp: 0}, forced{r: 70})
		}
		if style == 11 {
			script = append(script, forced{r: 30, tp: 0})
			for p := 0; p < 6; p++ {
				script = append(script, forced{r: 0, p: p, out: 1 + p/4})
			}
			for p := 0; p < 6; p++ {
				script = append(script, forced{r: 45, p: p, tp: 0})
			}
			script = append(script, forced{r: 70}, forced{r: 70})
		}
		if style == 10 {
			for p := 0; p < 4; p++ {
				script = append(script, forced{r: 0, p: p})
			}
			script = append(script, forced{r: 86, p: rng.Intn(4)}, forced{r: 30, tp: 0}, forced{r: 70}, forced{r: 70})
		}
		if style == 9 {
			script = append(script, forced{r: 30, tp: 0})
			for p := 0; p < 6; p++ {
				script = append(script, forced{r: 0, p: p, out: 1 + p/5})
			}
			for p := 0; p < 6; p++ {
				script = append(script, forced{r: 45, p: p, tp: 0})
			}
			script = append(script, forced{r: 70}, forced{r: 70})
		}
		if style == 8 {
			script = append(script, forced{r: 30, tp: 1})
			for p := 0; p < 6; p++ {
				script = append(script, forced{r: 0, p: p})
			}
			script = append(script, forced{r: 30, tp: 0})
			for p := 0; p < 6; p++ {
				script = append(script, forced{r: 45, p: p, tp: 0})
			}
			script = append(script, forced{r: 70})
		}
		if style == 7 {
			// a PRUNE with peer-exchange records from a peer below the accept-PX threshold: the records are ignored, the backoff is not
			for p := 0; p < 3; p++ {
				script = append(script, forced{r: 0, p: p})
			}
			script = append(script, forced{r: 30, tp: 0}, forced{r: 55, p: 0, tp: 0, bo: 20}, forced{r: 70}, forced{r: 70})
		}
		if style == 6 {
			// the GRAFT sent at Join is dropped (queue full), the peer then prunes us, its queue opens again: the pending GRAFT
			// must not go out (the peer is no longer in the mesh and under backoff)
			for p := 0; p < 3; p++ {
				script = append(script, forced{r: 0, p: p})
			}
			script = append(script, forced{r: 65, p: 0}, forced{r: 30, tp: 0}, forced{r: 55, p: 0, tp: 0, bo: 30}, forced{r: 65, p: 0}, forced{r: 70}, forced{r: 70})
		}
		if style == 12 {
			// a fanout is picked, EVERY peer leaves (the fanout set is empty but still there), the topic is joined at once
			for p := 0; p < 3; p++ {
				script = append(script, forced{r: 0, p: p})
			}
			script = append(script, forced{r: 62, tp: 0}, forced{r: 20, p: 0}, forced{r: 20, p: 1}, forced{r: 20, p: 2}, forced{r: 30, tp: 0}, forced{r: 0, p: 0}, forced{r: 70})
		}
		if style == 5 {
			// a fanout is picked, two of four peers leave, the topic is joined before the next heartbeat
			for p := 0; p < 4; p++ {
				script = append(script, forced{r: 0, p: p})
			}
			script = append(script, forced{r: 62, tp: 0}, forced{r: 20, p: 0}, forced{r: 20, p: 1}, forced{r: 30, tp: 0}, forced{r: 70})
		}
		if style == 4 {
			script = append(script, forced{r: 0, p: 0}, forced{r: 0, p: 1}, forced{r: 0, p: 2}, forced{r: 30, tp: 0},
				forced{r: 55, p: 0, tp: 0, bo: 40}, forced{r: 90, d: time.Second}, forced{r: 45, p: 0, tp: 0}, forced{r: 90, d: 10 * time.Second})
			for k := 0; k < 17; k++ {
				script = append(script, forced{r: 70})
			}
		}
		connected := map[int]bool{}
		var steps []string
		var recSteps []map[string]any
		hbs, oversub := 0, false
		// GRAFT / PRUNE whose RPC was dropped (queue full) are kept by the router and retried with the next RPC to that peer; what
		// was pending before an operation and goes out (or is dropped again) during it is a retry, everything else is fresh
		pendingBefore := map[string]int{}
		clogged := map[int]bool{}
		emit := func(op string, extra map[string]any) {
			sent, _ := n.drain()
			n.tr.takeDrops()
			pendingAfter := map[string]int{}
			vfEval(n.ps, func() {
				for p, c := range n.gs.control {
					for _, x := range vfCtlTerms(n.tr.idx(p), c) {
						pendingAfter[x]++
					}
				}
			})
			var ctl, retried []string
			// an open queue takes everything: what had been pending and went out is a retry, the rest is fresh
			for _, c := range sent {
				if pendingBefore[c] > 0 {
					pendingBefore[c]--
					retried = append(retried, c)
				} else {
					ctl = append(ctl, c)
				}
			}
			// a queue that refuses everything: what this step produced for that peer is what its pending control grew by
			for c, k := range pendingAfter {
				var kind string
				var pi int
				fmt.Sscanf(c, "%s %d", &kind, &pi)
				if clogged[pi] {
					for j := pendingBefore[c]; j < k; j++ {
						ctl = append(ctl, c)
					}
				}
			}
			sort.Strings(ctl)
			sort.Strings(retried)
			pendingBefore = pendingAfter
			snap := n.snapshot()
			steps = append(steps, fmt.Sprintf("{| st_scores := %s; st_op := %s; st_ctl := [%s]; st_retried := [%s]; st_snap := %s; st_pen := %d |}",
				extra["scores"], op, strings.Join(ctl, "; "), strings.Join(retried, "; "), snap, extra["pen"]))
			recSteps = append(recSteps, map[string]any{"op": op, "scores": extra["scores"], "ctl": ctl, "retried_ctl": retried, "penalty": extra["pen"]})
		}
		sub := func(p, tp int, s bool) {
			ts := vfTopic(tp)
			n.recv(p, &pb.RPC{Subscriptions: []*pb.RPC_SubOpts{{Subscribe: &s, Topicid: &ts}}})
		}
		for i := 0; i < nops; i++ {
			// scores drift: integer values hitting 0, the opportunistic threshold and the negative side
			if rng.Intn(4) == 0 {
				for k := 0; k < 1+rng.Intn(3); k++ {
					n.scores[rng.Intn(np)] = []int{-2, -1, -1, 0, 0, 0, 1, 2, 2, 3, 4}[rng.Intn(11)]
				}
			}
			if style == 11 && i == len(script)-2 {
				for p := 0; p < 6; p++ {
					n.scores[p] = []int{0, 0, 0, vfOGThreshold + 1, vfOGThreshold + 1, vfOGThreshold + 1}[p]
				}
			}
			if style == 9 && i == len(script)-2 {
				for p := 0; p < 5; p++ {
					n.scores[p] = 1 + rng.Intn(4)
				}
				n.scores[5] = 0
			}
			if style == 1 && i == len(script)-2 {
				// a few clearly better peers, the rest around / below the opportunistic threshold
				for p := 0; p < np; p++ {
					n.scores[p] = []int{0, 0, 1, 1, 3, 4}[rng.Intn(6)]
				}
			}
			sc := n.scoreLit()
			r := rng.Intn(100)
			var fc *forced
			if i < len(script) {
				fc = &script[i]
				r = fc.r
			}
			pick := func(k int) int {
				if fc != nil {
					return fc.p
				}
				return rng.Intn(k)
			}
			pickT := func(k int) int {
				if fc != nil {
					return fc.tp
				}
				return rng.Intn(k)
			}
			switch {
			case r < 18 || (fc == nil && len(connected) < 3):
				p := pick(np)
				if connected[p] {
					continue
				}
				proto := vfProtos[[]int{0, 1, 2, 2, 3, 3, 3}[rng.Intn(7)]]
				outb := rng.Intn(3) == 0
				if fc != nil && fc.out != 0 {
					outb = fc.out == 2
				}
				n.addPeer(p, proto, outb)
				connected[p] = true
				emit(fmt.Sprintf("OAddPeer %d {| pi_mesh := %v; pi_px := %v; pi_out := %v |}", p, proto != FloodSubID, proto == GossipSubID_v11 || proto == GossipSubID_v12, outb), map[string]any{"scores": sc, "pen": 0})
				for tp := 0; tp < ntopics; tp++ {
					if fc != nil || rng.Intn(5) != 0 {
						sub(p, tp, true)
						emit(fmt.Sprintf("OSub %d %d", p, tp), map[string]any{"scores": sc, "pen": 0})
					}
				}
			case r < 23:
				p := pick(np)
				if !connected[p] {
					continue
				}
				n.removePeer(p)
				delete(connected, p)
				delete(clogged, p)
				emit(fmt.Sprintf("ODisconnect %d", p), map[string]any{"scores": sc, "pen": 0})
			case r < 30:
				p, tp := rng.Intn(np), rng.Intn(ntopics)
				if !connected[p] {
					continue
				}
				s := rng.Intn(2) == 0
				sub(p, tp, s)
				if s {
					emit(fmt.Sprintf("OSub %d %d", p, tp), map[string]any{"scores": sc, "pen": 0})
				} else {
					emit(fmt.Sprintf("OUnsub %d %d", p, tp), map[string]any{"scores": sc, "pen": 0})
				}
			case r < 38:
				tp := pickT(ntopics)
				vfEval(n.ps, func() { n.gs.Join(vfTopic(tp)) })
				var chosen []string
				for _, e := range n.tr.take() {
					var p int
					var tt string
					if k, _ := fmt.Sscanf(e, "G %d %s", &p, &tt); k == 2 {
						chosen = append(chosen, fmt.Sprint(p))
					}
				}
				// Join keeps the surviving fanout peers first; the model separates them itself: pass the grafted set
				emit(fmt.Sprintf("OJoinObs %d [%s]", tp, strings.Join(chosen, "; ")), map[string]any{"scores": sc, "pen": 0})
			case r < 42:
				tp := pickT(ntopics)
				vfEval(n.ps, func() { n.gs.Leave(vfTopic(tp)) })
				n.tr.take()
				emit(fmt.Sprintf("OLeave %d", tp), map[string]any{"scores": sc, "pen": 0})
			case r < 52:
				p := pick(np)
				if !connected[p] {
					continue
				}
				var gr []*pb.ControlGraft
				var ts []string
				ng := 1 + rng.Intn(2)
				if fc != nil {
					ng = 1
				}
				for k := 0; k < ng; k++ {
					tp := pickT(ntopics + 1) // sometimes an unknown topic
					s := vfTopic(tp)
					gr = append(gr, &pb.ControlGraft{TopicID: &s})
					ts = append(ts, fmt.Sprint(tp))
				}
				before := n.penalty(p)
				n.recv(p, &pb.RPC{Control: &pb.ControlMessage{Graft: gr}})
				n.tr.take()
				emit(fmt.Sprintf("ORecvGraft %d [%s]", p, strings.Join(ts, "; ")), map[string]any{"scores": sc, "pen": n.penalty(p) - before})
			case r < 60:
				p := pick(np)
				if !connected[p] {
					continue
				}
				tp := pickT(ntopics)
				s := vfTopic(tp)
				pr := &pb.ControlPrune{TopicID: &s}
				bo := "None"
				if fc != nil || rng.Intn(2) == 0 {
					v := uint64(1 + rng.Intn(40))
					if fc != nil && fc.bo > 0 {
						v = uint64(fc.bo)
					}
					pr.Backoff = &v
					bo = fmt.Sprintf("(Some (%d)%%Z)", v)
				}
				if fc != nil || rng.Intn(2) == 0 {
					// peer-exchange records ride along (whether they are followed depends on the sender's score; the backoff does not)
					for k := 1 + rng.Intn(2); k > 0; k-- {
						pr.Peers = append(pr.Peers, &pb.PeerInfo{PeerID: []byte(vfPeerIDs(40)[20+rng.Intn(20)])})
					}
				}
				n.recv(p, &pb.RPC{Control: &pb.ControlMessage{Prune: []*pb.ControlPrune{pr}}})
				n.tr.take()
				emit(fmt.Sprintf("ORecvPrune %d [(%d, %s)]", p, tp, bo), map[string]any{"scores": sc, "pen": 0})
			case r >= 64 && r < 67:
				// a peer's outbound queue stops taking RPCs (everything to it is dropped) / takes them again
				p := pick(np)
				if !connected[p] {
					continue
				}
				clogged[p] = !clogged[p]
				vfEval(n.ps, func() {
					if q, ok := n.ps.peers[n.pids[p]]; ok {
						if clogged[p] {
							q.maxSize = 0
						} else {
							q.maxSize = 4096
						}
					}
				})
				continue
			case r < 64:
				// a publication to a topic that is not joined: the fanout set is picked (when empty) and kept alive
				tp := pickT(ntopics)
				joined := false
				var before, after []int
				vfEval(n.ps, func() {
					_, joined = n.gs.mesh[vfTopic(tp)]
					if joined {
						return
					}
					for p := range n.gs.fanout[vfTopic(tp)] {
						before = append(before, n.tr.idx(p))
					}
					for p := range n.gs.getFanoutPeersForPublishing(vfTopic(tp)) {
						after = append(after, n.tr.idx(p))
					}
				})
				if joined {
					continue
				}
				n.tr.take()
				var chosen []int
				if len(before) == 0 {
					chosen = after
					sort.Ints(chosen)
				}
				emit(fmt.Sprintf("OFanoutPub %d %s", tp, vfNats(chosen)), map[string]any{"scores": sc, "pen": 0})
			case r < 85:
				var fanBefore map[string]map[peer.ID]struct{}
				vfEval(n.ps, func() {
					fanBefore = map[string]map[peer.ID]struct{}{}
					for tpc, m := range n.gs.fanout {
						c := map[peer.ID]struct{}{}
						for p := range m {
							c[p] = struct{}{}
						}
						fanBefore[tpc] = c
					}
					n.gs.heartbeat()
				})
				hbs++
				// group GRAFT / PRUNE trace events by topic, in order
				byTopic := map[string][]string{}
				var order []string
				for _, e := range n.tr.take() {
					var k string
					var p int
					var tt string
					if c, _ := fmt.Sscanf(e, "%s %d %s", &k, &p, &tt); c == 3 {
						if _, ok := byTopic[tt]; !ok {
							order = append(order, tt)
						}
						if k == "G" {
							byTopic[tt] = append(byTopic[tt], fmt.Sprintf("HGraft %d", p))
						} else {
							byTopic[tt] = append(byTopic[tt], fmt.Sprintf("HPrune %d", p))
							oversub = true
						}
					}
				}
				var obs []string
				for _, tt := range order {
					obs = append(obs, fmt.Sprintf("(%s, [%s])", tt[1:], strings.Join(byTopic[tt], "; ")))
				}
				var fobs []string
				vfEval(n.ps, func() {
					for tpc, m := range n.gs.fanout {
						var added []int
						for p := range m {
							if _, ok := fanBefore[tpc][p]; !ok {
								added = append(added, n.tr.idx(p))
							}
						}
						sort.Ints(added)
						if len(added) > 0 {
							fobs = append(fobs, fmt.Sprintf("(%s, %s)", tpc[1:], vfNats(added)))
						}
					}
				})
				sort.Strings(fobs)
				emit(fmt.Sprintf("OHeartbeat [%s] [%s]", strings.Join(obs, "; "), strings.Join(fobs, "; ")), map[string]any{"scores": sc, "pen": 0})
			case r < 88:
				// a peer that is in no mesh or fanout becomes a direct peer, or a direct peer stops being one
				p := pick(np)
				on, inMesh := false, false
				vfEval(n.ps, func() {
					_, is := n.gs.direct[n.pids[p]]
					on = !is
					for _, m := range n.gs.mesh {
						if _, ok := m[n.pids[p]]; ok {
							inMesh = true
						}
					}
					for _, m := range n.gs.fanout {
						if _, ok := m[n.pids[p]]; ok {
							inMesh = true // direct peers are fixed at construction in reality: never one that already is in a mesh or fanout
						}
					}
					if on && !inMesh {
						if n.gs.direct == nil {
							n.gs.direct = map[peer.ID]struct{}{}
						}
						n.gs.direct[n.pids[p]] = struct{}{}
					} else if !on {
						delete(n.gs.direct, n.pids[p])
					}
				})
				if on && inMesh {
					continue
				}
				emit(fmt.Sprintf("ODirect %d %v", p, on), map[string]any{"scores": sc, "pen": 0})
			default:
				// time: land exactly at / one nanosecond around backoff deadlines now and then
				d := time.Duration(1+rng.Intn(8)) * time.Second
				if fc != nil {
					d = fc.d
				}
				switch map[bool]int{true: 9, false: rng.Intn(6)}[fc != nil] {
				case 0:
					d = P.PruneBackoff
				case 1:
					d = P.PruneBackoff + time.Nanosecond
				case 2:
					d = P.UnsubBackoff - time.Nanosecond
				case 3:
					d = P.PruneBackoff + 2*time.Second + time.Nanosecond
				}
				time.Sleep(d)
				emit(fmt.Sprintf("OAdvance (%d)%%Z", d.Nanoseconds()), map[string]any{"scores": sc, "pen": 0})
			}
		}
		lit = fmt.Sprintf("{| rc_params := %s;\n   rc_steps := [\n    %s] |}", vfRParamsLit(P), strings.Join(steps, ";\n    "))
		rec = map[string]any{"params": fmt.Sprintf("%+v", P), "peers": np, "topics": ntopics, "steps": recSteps}
		nontrivial = hbs > 0 && oversub
		cancel()
		synctest.Wait()
	})
	return
}

func TestVF_Router(t *testing.T) {
	cs := vfNewCases(t, "router", "From PS Require Import Model.Router Run.RouterRun.", "rcase", "check_rcase")
	cs.shard = 40
	rng := vfRng(7)
	ncases := vfN(160, 2000)
	for c := 0; c < ncases; c++ {
		style := []int{0, 1, 9, 1, 10, 2, 3, 4, 5, 6, 7, 8, 11, 12}[c%14]
		lit, rec, nt := vfRouterHistory(t, rng, 25+rng.Intn(50), style)
		cs.add(lit, rec, nt)
		cs.kind(fmt.Sprintf("style%d", style))
	}
	cs.flush("random router histories on a real gossipsub node with a parked heartbeat: fake peers of every protocol version with inbound/outbound direction, remote subscriptions, GRAFT / PRUNE (with and without backoff, unknown topics), Join / Leave, peers whose outbound queue refuses every RPC for a while (dropped GRAFT / PRUNE are retried later), publications to topics that are not joined (fanout selection; also between a Leave and a Join inside the unsubscribe backoff), integer scores moving across 0 and the opportunistic-graft threshold, heartbeats, virtual time landing exactly at and one nanosecond around the backoff deadlines, random valid degree parameters incl. the all-zero bootstrapper setting; after EVERY operation the drained GRAFT/PRUNE, the behaviour-penalty delta and a snapshot of mesh / fanout / backoff are compared with the model. " +
		"non-trivial = at least one heartbeat that pruned somebody; distinct = hash of the whole history")
}
