//go:build verif

package pubsub

import (
	"encoding/json"
	"fmt"
	"log/slog"
	"math"
	"math/rand"
	"os"
	"path/filepath"
	"sort"
	"strconv"
	"strings"
	"testing"
	"testing/synctest"
	"time"

	pb "github.com/libp2p/go-libp2p-pubsub/pb"
	"github.com/libp2p/go-libp2p/core/peer"
)

// C10: the real peerScore (score.go) driven directly through its tracer interface under virtual
// time; after every operation every tracked peer's score and counters are recorded and compared
// bit-for-bit (binary64) with Model/Score.v instantiated with Coq's primitive floats.
// At most two scored topics per parameter set: float addition is commutative but not associative
// and score() sums the topics in map order.

func vfF(x float64) string {
	switch {
	case math.IsNaN(x):
		return "nan"
	case math.IsInf(x, 1):
		return "infinity"
	case math.IsInf(x, -1):
		return "neg_infinity"
	}
	return "(" + strconv.FormatFloat(x, 'x', -1, 64) + ")%float"
}

func vfTParamsLit(tp *TopicScoreParams) string {
	return fmt.Sprintf("(mkTP %s %s %s %s %s %s %s %s %s %s %s %s %s %s %s %s %s)",
		vfF(tp.TopicWeight), vfF(tp.TimeInMeshWeight), vfZ(int64(tp.TimeInMeshQuantum)), vfF(tp.TimeInMeshCap),
		vfF(tp.FirstMessageDeliveriesWeight), vfF(tp.FirstMessageDeliveriesDecay), vfF(tp.FirstMessageDeliveriesCap),
		vfF(tp.MeshMessageDeliveriesWeight), vfF(tp.MeshMessageDeliveriesDecay), vfF(tp.MeshMessageDeliveriesCap), vfF(tp.MeshMessageDeliveriesThreshold),
		vfZ(int64(tp.MeshMessageDeliveriesWindow)), vfZ(int64(tp.MeshMessageDeliveriesActivation)),
		vfF(tp.MeshFailurePenaltyWeight), vfF(tp.MeshFailurePenaltyDecay), vfF(tp.InvalidMessageDeliveriesWeight), vfF(tp.InvalidMessageDeliveriesDecay))
}

func vfPick(rng *rand.Rand, xs ...float64) float64 { return xs[rng.Intn(len(xs))] }

// a topic parameter set; partial = some groups left at their zero values under SkipAtomicValidation
func vfGenTopicParams(rng *rand.Rand, partial bool) *TopicScoreParams {
	tp := &TopicScoreParams{SkipAtomicValidation: partial}
	tp.TopicWeight = vfPick(rng, 0, 0.5, 1, 1, 2, 0.3)
	skip := func() bool { return partial && rng.Intn(3) == 0 }
	if !skip() {
		tp.TimeInMeshWeight = vfPick(rng, 0, 0.01, 0.5, 1)
		tp.TimeInMeshQuantum = time.Duration(1+rng.Intn(3)) * time.Second / time.Duration(1+rng.Intn(2))
		tp.TimeInMeshCap = vfPick(rng, 1, 3, 10, 2.5)
	}
	if !skip() {
		tp.FirstMessageDeliveriesWeight = vfPick(rng, 0, 1, 0.5, 2.25)
		tp.FirstMessageDeliveriesDecay = vfPick(rng, 0.5, 0.9, 0.75, 0.3)
		tp.FirstMessageDeliveriesCap = vfPick(rng, 1, 2, 3.5, 10)
	}
	if !skip() {
		tp.MeshMessageDeliveriesWeight = vfPick(rng, 0, -1, -0.5, -0.1)
		tp.MeshMessageDeliveriesDecay = vfPick(rng, 0.5, 0.9, 0.7)
		tp.MeshMessageDeliveriesCap = vfPick(rng, 2, 4, 10)
		tp.MeshMessageDeliveriesThreshold = vfPick(rng, 1, 2, 3.5)
		tp.MeshMessageDeliveriesWindow = time.Duration(rng.Intn(3)) * time.Second
		tp.MeshMessageDeliveriesActivation = time.Duration(1+rng.Intn(4)) * time.Second
	}
	if !skip() {
		tp.MeshFailurePenaltyWeight = vfPick(rng, 0, -1, -0.3)
		tp.MeshFailurePenaltyDecay = vfPick(rng, 0.5, 0.9, 0.2)
	}
	if !skip() {
		tp.InvalidMessageDeliveriesWeight = vfPick(rng, 0, -1, -10, -0.7)
		tp.InvalidMessageDeliveriesDecay = vfPick(rng, 0.5, 0.9, 0.1)
	}
	return tp
}

type vfScoreNode struct {
	ps   *peerScore
	pids []peer.ID
	idx  map[peer.ID]int
	app  map[peer.ID]float64
}

func (n *vfScoreNode) observe() (lit string, rec map[string]any, nan bool) {
	n.ps.Lock()
	defer n.ps.Unlock()
	var ids []int
	for p := range n.ps.peerStats {
		ids = append(ids, n.idx[p])
	}
	sort.Ints(ids)
	var pl []string
	recp := map[string]any{}
	for _, i := range ids {
		p := n.pids[i]
		st := n.ps.peerStats[p]
		sc := n.ps.score(p)
		if math.IsNaN(sc) {
			nan = true
		}
		var tl []string
		var tns []string
		for tn := range st.topics {
			tns = append(tns, tn)
		}
		sort.Strings(tns)
		rect := map[string]any{}
		for _, tn := range tns {
			ts := st.topics[tn]
			tl = append(tl, fmt.Sprintf("(%s, {| ob_fmd := %s; ob_mmd := %s; ob_imd := %s; ob_mfp := %s; ob_inmesh := %v; ob_meshtime := %s; ob_active := %v |})",
				tn[1:], vfF(ts.firstMessageDeliveries), vfF(ts.meshMessageDeliveries), vfF(ts.invalidMessageDeliveries), vfF(ts.meshFailurePenalty),
				ts.inMesh, vfZ(int64(ts.meshTime)), ts.meshMessageDeliveriesActive))
			rect[tn] = fmt.Sprintf("fmd=%v mmd=%v imd=%v mfp=%v inMesh=%v meshTime=%v active=%v", ts.firstMessageDeliveries, ts.meshMessageDeliveries,
				ts.invalidMessageDeliveries, ts.meshFailurePenalty, ts.inMesh, ts.meshTime, ts.meshMessageDeliveriesActive)
		}
		pl = append(pl, fmt.Sprintf("(%d, {| ob_score := %s; ob_bp := %s; ob_connected := %v; ob_topics := [%s] |})", i, vfF(sc), vfF(st.behaviourPenalty), st.connected, strings.Join(tl, "; ")))
		recp[strconv.Itoa(i)] = map[string]any{"score": fmt.Sprint(sc), "bp": st.behaviourPenalty, "connected": st.connected, "topics": rect}
	}
	// the IP colocation sets (addresses are 10.0.0.k in this harness)
	var ipl []string
	reci := map[string]any{}
	for ip, set := range n.ps.peerIPs {
		var k int
		fmt.Sscanf(ip, "10.0.0.%d", &k)
		var ps []int
		for p := range set {
			ps = append(ps, n.idx[p])
		}
		sort.Ints(ps)
		if len(ps) > 0 {
			ipl = append(ipl, fmt.Sprintf("(%d, %s)", k, vfNats(ps)))
			reci[ip] = ps
		}
	}
	sort.Strings(ipl)
	lit = fmt.Sprintf("{| so_peers := [%s]; so_nrecs := %d; so_ipsets := [%s] |}", strings.Join(pl, "; "), len(n.ps.deliveries.records), strings.Join(ipl, "; "))
	return lit, map[string]any{"peers": recp, "records": len(n.ps.deliveries.records), "ip_sets": reci}, nan
}

func vfScoreHistory(t *testing.T, rng *rand.Rand, nops int, style int) (lit string, rec map[string]any, nontrivial bool, panicked string) {
	synctest.Test(t, func(t *testing.T) {
		np := 4
		pids := vfPeerIDs(np)
		n := &vfScoreNode{pids: pids, idx: map[peer.ID]int{}, app: map[peer.ID]float64{}}
		for i, p := range pids {
			n.idx[p] = i
		}
		partial := rng.Intn(3) == 0
		params := &PeerScoreParams{SkipAtomicValidation: partial, Topics: map[string]*TopicScoreParams{}}
		ntopics := 1 + rng.Intn(2)
		if style == 3 {
			ntopics = 2
		}
		for i := 0; i < ntopics; i++ {
			params.Topics[vfTopic(i)] = vfGenTopicParams(rng, partial)
		}
		params.TopicScoreCap = vfPick(rng, 0, 0, 5, 20.5)
		params.AppSpecificScore = func(p peer.ID) float64 { return n.app[p] }
		params.AppSpecificWeight = vfPick(rng, 0, 1, 0.5, 2)
		params.IPColocationFactorWeight = vfPick(rng, 0, -1, -0.5)
		params.IPColocationFactorThreshold = 1 + rng.Intn(2)
		params.BehaviourPenaltyWeight = vfPick(rng, 0, -1, -0.25)
		params.BehaviourPenaltyThreshold = vfPick(rng, 0, 1, 2.5)
		params.BehaviourPenaltyDecay = vfPick(rng, 0.5, 0.9, 0.99)
		params.DecayInterval = time.Second
		params.DecayToZero = vfPick(rng, 0.01, 0.1, 0.5)
		params.RetainScore = time.Duration(rng.Intn(6)) * time.Second
		params.SeenMsgTTL = time.Duration(2+rng.Intn(6)) * time.Second
		if style == 1 {
			// the smallest partially specified set: everything about P1 left out
			params.SkipAtomicValidation = true
			for _, tp := range params.Topics {
				tp.SkipAtomicValidation = true
				tp.TimeInMeshWeight, tp.TimeInMeshQuantum, tp.TimeInMeshCap = 0, 0, 0
			}
		}
		if style == 3 {
			// two scored topics whose positive contributions add up beyond a small topic score cap (the cap bounds the SUM)
			params.TopicScoreCap = vfPick(rng, 1.5, 2.25)
			for _, tp := range params.Topics {
				tp.TopicWeight = vfPick(rng, 1, 0.5)
				tp.FirstMessageDeliveriesWeight, tp.FirstMessageDeliveriesDecay, tp.FirstMessageDeliveriesCap = 1, 0.9, 10
			}
		}
		if style == 4 {
			// the sticky mesh-failure penalty: the delivery requirement becomes active while the peer is in the mesh and is unmet
			// when the peer is pruned, and, later, when it disconnects
			for _, tp := range params.Topics {
				tp.TopicWeight = 1
				tp.MeshMessageDeliveriesWeight, tp.MeshMessageDeliveriesDecay, tp.MeshMessageDeliveriesCap = -1, 0.9, 10
				tp.MeshMessageDeliveriesThreshold, tp.MeshMessageDeliveriesWindow, tp.MeshMessageDeliveriesActivation = 2, time.Second, time.Second
				tp.MeshFailurePenaltyWeight, tp.MeshFailurePenaltyDecay = -1, 0.9
			}
		}
		if style == 2 {
			// finite but huge weights: accepted by validate(), overflow to +Inf and -Inf
			params.AppSpecificWeight = 1.7e308
			params.BehaviourPenaltyWeight = -1.7e308
			params.BehaviourPenaltyThreshold = 0
			params.BehaviourPenaltyDecay = 0.5
			for _, p := range pids {
				n.app[p] = 2
			}
		}
		if err := params.validate(); err != nil {
			t.Fatalf("generator produced a parameter set the library rejects: %v", err)
		}
		var tl []string
		for i := 0; i < ntopics; i++ {
			tl = append(tl, fmt.Sprintf("(%d, %s)", i, vfTParamsLit(params.Topics[vfTopic(i)])))
		}
		plit := fmt.Sprintf("(mkSP [%s] %s %s %s %d %s %s %s %s %s %s)",
			strings.Join(tl, "; "), vfF(params.TopicScoreCap), vfF(params.AppSpecificWeight), vfF(params.IPColocationFactorWeight), params.IPColocationFactorThreshold,
			vfF(params.BehaviourPenaltyWeight), vfF(params.BehaviourPenaltyThreshold), vfF(params.BehaviourPenaltyDecay), vfF(params.DecayToZero),
			vfZ(int64(params.RetainScore)), vfZ(int64(params.SeenMsgTTL)))
		n.ps = newPeerScore(params, slog.New(slog.NewTextHandler(os.Stderr, &slog.HandlerOptions{Level: slog.LevelError})))

		var steps []string
		var recSteps []map[string]any
		nextMsg := 0
		live := []int{} // message ids still worth reusing
		nDup, nDecay, nRetain := 0, 0, 0
		mkMsg := func(id int, from int, tp int) *Message {
			ts := vfTopic(tp)
			return &Message{Message: &pb.Message{Topic: &ts}, ID: strconv.Itoa(id), ReceivedFrom: pids[from]}
		}
		emit := func(op string) {
			var al []string
			for i, p := range pids {
				if v, ok := n.app[p]; ok {
					al = append(al, fmt.Sprintf("(%d, %s)", i, vfF(v)))
				}
			}
			ol, orec, _ := n.observe()
			steps = append(steps, fmt.Sprintf("{| ss_op := %s; ss_app := [%s]; ss_obs := %s |}", op, strings.Join(al, "; "), ol))
			recSteps = append(recSteps, map[string]any{"op": op, "obs": orec})
		}
		func() {
			defer func() {
				if r := recover(); r != nil {
					panicked = fmt.Sprint(r)
				}
			}()
			if style == 4 {
				for p := 0; p < 2; p++ {
					n.ps.OnNewOutboundStream(pids[p], GossipSubID_v11)
					emit(fmt.Sprintf("fAddPeer %d", p))
					n.ps.Graft(pids[p], vfTopic(0))
					emit(fmt.Sprintf("fGraft %d 0", p))
				}
				time.Sleep(2500 * time.Millisecond)
				emit(fmt.Sprintf("fAdvance %s", vfZ(int64(2500*time.Millisecond))))
				n.ps.refreshScores()
				emit("fRefresh")
				// peer 0 is pruned and then disconnects; peer 1 disconnects while still in the mesh
				n.ps.Prune(pids[0], vfTopic(0))
				emit("fPrune 0 0")
				for p := 0; p < 2; p++ {
					app := n.app[pids[p]]
					n.ps.OnClosedOutboundStream(pids[p])
					emit(fmt.Sprintf("fRemovePeer %d %s", p, vfF(app)))
				}
			}
			if style == 5 {
				// a peer with an address and a non-positive score leaves, stays away for longer than the retention period, comes
				// back (with no address yet) before the next decay tick has collected the record, leaves again, and is collected
				setIP := func(p int, k int) {
					ips := []string{fmt.Sprintf("10.0.0.%d", k)}
					n.ps.Lock()
					if st, ok := n.ps.peerStats[pids[p]]; ok {
						n.ps.setIPs(pids[p], ips, st.ips)
						st.ips = ips
					}
					n.ps.Unlock()
					emit(fmt.Sprintf("fSetIPs %d [%d]", p, k))
				}
				n.ps.OnNewOutboundStream(pids[0], GossipSubID_v11)
				emit("fAddPeer 0")
				setIP(0, 1)
				app := n.app[pids[0]]
				n.ps.OnClosedOutboundStream(pids[0])
				emit(fmt.Sprintf("fRemovePeer 0 %s", vfF(app)))
				d := params.RetainScore + time.Duration(1+rng.Intn(3))*time.Second
				time.Sleep(d)
				emit(fmt.Sprintf("fAdvance %s", vfZ(int64(d))))
				n.ps.OnNewOutboundStream(pids[0], GossipSubID_v11)
				emit("fAddPeer 0")
				if rng.Intn(2) == 0 {
					setIP(0, 2)
				}
				app = n.app[pids[0]]
				n.ps.OnClosedOutboundStream(pids[0])
				emit(fmt.Sprintf("fRemovePeer 0 %s", vfF(app)))
				time.Sleep(d)
				emit(fmt.Sprintf("fAdvance %s", vfZ(int64(d))))
				n.ps.refreshScores()
				emit("fRefresh")
			}
			if style == 3 {
				// one peer delivers first on both topics
				n.ps.OnNewOutboundStream(pids[0], GossipSubID_v11)
				emit("fAddPeer 0")
				for k := 0; k < 4; k++ {
					id := nextMsg
					nextMsg++
					live = append(live, id)
					n.ps.ValidateMessage(mkMsg(id, 0, k%2))
					emit(fmt.Sprintf("fValidate %d", id))
					n.ps.DeliverMessage(mkMsg(id, 0, k%2))
					emit(fmt.Sprintf("fDeliver %d %d %d", id, 0, k%2))
				}
			}
			for k := 0; k < nops; k++ {
				// application scores drift
				if rng.Intn(5) == 0 {
					n.app[pids[rng.Intn(np)]] = vfPick(rng, -2, -0.5, 0, 1, 3.25)
				}
				p := rng.Intn(np)
				tp := rng.Intn(ntopics + 1) // the last one is not scored
				r := rng.Intn(100)
				switch {
				case r < 10:
					n.ps.OnNewOutboundStream(pids[p], GossipSubID_v11)
					emit(fmt.Sprintf("fAddPeer %d", p))
				case r < 15:
					app := n.app[pids[p]]
					n.ps.Lock()
					_, had := n.ps.peerStats[pids[p]]
					n.ps.Unlock()
					n.ps.OnClosedOutboundStream(pids[p])
					if had {
						nRetain++
					}
					emit(fmt.Sprintf("fRemovePeer %d %s", p, vfF(app)))
				case r < 25:
					n.ps.Graft(pids[p], vfTopic(tp))
					emit(fmt.Sprintf("fGraft %d %d", p, tp))
				case r < 31:
					n.ps.Prune(pids[p], vfTopic(tp))
					emit(fmt.Sprintf("fPrune %d %d", p, tp))
				case r < 36:
					id := nextMsg
					nextMsg++
					live = append(live, id)
					n.ps.ValidateMessage(mkMsg(id, p, tp))
					emit(fmt.Sprintf("fValidate %d", id))
				case r < 48:
					id := nextMsg
					if len(live) > 0 && rng.Intn(2) == 0 {
						id = live[rng.Intn(len(live))]
					} else {
						nextMsg++
						live = append(live, id)
					}
					n.ps.DeliverMessage(mkMsg(id, p, tp))
					emit(fmt.Sprintf("fDeliver %d %d %d", id, p, tp))
				case r < 58:
					id := nextMsg
					if len(live) > 0 && rng.Intn(2) == 0 {
						id = live[rng.Intn(len(live))]
					} else {
						nextMsg++
						live = append(live, id)
					}
					reasons := []struct{ go_, coq string }{
						{RejectMissingSignature, "RSig"}, {RejectInvalidSignature, "RSig"}, {RejectUnexpectedSignature, "RSig"},
						{RejectUnexpectedAuthInfo, "RSig"}, {RejectSelfOrigin, "RSig"},
						{RejectBlacklstedPeer, "RBlacklist"}, {RejectBlacklistedSource, "RBlacklist"},
						{RejectValidationQueueFull, "RQueueFull"}, {RejectValidationThrottled, "RThrottled"},
						{RejectValidationIgnored, "RIgnored"}, {RejectValidationFailed, "ROther"}, {RejectValidationFailed, "ROther"}, {RejectValidationFailed, "ROther"},
					}
					rs := reasons[rng.Intn(len(reasons))]
					n.ps.RejectMessage(mkMsg(id, p, tp), rs.go_)
					emit(fmt.Sprintf("fReject %d %d %d %s", id, p, tp, rs.coq))
				case r < 72:
					if len(live) == 0 {
						continue
					}
					id := live[rng.Intn(len(live))]
					n.ps.DuplicateMessage(mkMsg(id, p, tp))
					nDup++
					emit(fmt.Sprintf("fDuplicate %d %d %d", id, p, tp))
				case r < 77:
					c := 1 + rng.Intn(3)
					n.ps.AddPenalty(pids[p], c)
					emit(fmt.Sprintf("fPenalty %d %s", p, vfZ(int64(c))))
				case r < 87:
					n.ps.refreshScores()
					nDecay++
					emit("fRefresh")
				case r < 89:
					n.ps.gcDeliveryRecords()
					emit("fGc")
				case r < 92:
					if tp >= ntopics {
						continue
					}
					ntp := vfGenTopicParams(rng, partial)
					if style == 1 {
						ntp.SkipAtomicValidation = true
						ntp.TimeInMeshWeight, ntp.TimeInMeshQuantum, ntp.TimeInMeshCap = 0, 0, 0
					}
					if err := ntp.validate(); err != nil {
						t.Fatalf("generator produced topic parameters the library rejects: %v", err)
					}
					if err := n.ps.SetTopicScoreParams(vfTopic(tp), ntp); err != nil {
						t.Fatal(err)
					}
					emit(fmt.Sprintf("fSetTopic %d %s", tp, vfTParamsLit(ntp)))
				case r < 96:
					// IP assignment (what refreshIPs does with the addresses of the peer's connections)
					var ips []string
					var il []string
					for _, ip := range rng.Perm(3)[:rng.Intn(3)] {
						ips = append(ips, fmt.Sprintf("10.0.0.%d", ip))
						il = append(il, strconv.Itoa(ip))
					}
					n.ps.Lock()
					if st, ok := n.ps.peerStats[pids[p]]; ok {
						n.ps.setIPs(pids[p], ips, st.ips)
						st.ips = ips
					}
					n.ps.Unlock()
					emit(fmt.Sprintf("fSetIPs %d [%s]", p, strings.Join(il, "; ")))
				default:
					d := time.Duration(1+rng.Intn(8)) * 500 * time.Millisecond
					time.Sleep(d)
					emit(fmt.Sprintf("fAdvance %s", vfZ(int64(d))))
				}
			}
		}()
		lit = fmt.Sprintf("{| sc_params := %s;\n   sc_steps := [\n    %s] |}", plit, strings.Join(steps, ";\n    "))
		rec = map[string]any{"params": plit, "partial": partial, "style": style, "steps": recSteps}
		nontrivial = nDup > 0 && nDecay > 0 && nRetain > 0
	})
	return
}

func TestVF_Score(t *testing.T) {
	cs := vfNewCases(t, "score", "From Coq Require Import Floats.\nFrom PS Require Import Model.Router Model.Score Run.ScoreRun.", "scase", "check_scase")
	cs.shard = 50
	rng := vfRng(10)
	ncases := vfN(200, 3000)
	var viol map[string]any
	for c := 0; c < ncases; c++ {
		style := 0
		if c%10 == 9 {
			style = 1
		}
		if c%25 == 13 {
			style = 2
		}
		if c%10 == 4 {
			style = 3
		}
		if c%10 == 6 {
			style = 4
		}
		if c%10 == 2 {
			style = 5
		}
		lit, rec, nt, pan := vfScoreHistory(t, rng, 40+rng.Intn(80), style)
		if pan != "" && viol == nil {
			viol = map[string]any{"property": "C10", "code": 104, "key": "score-panic",
				"what": "computing a score panicked for a parameter set the library accepts: " + pan, "case": rec}
		}
		if pan == "" {
			cs.add(lit, rec, nt)
		}
		cs.kind(fmt.Sprintf("style%d", style))
	}
	if viol != nil {
		js, _ := json.MarshalIndent(viol, "", " ")
		os.WriteFile(filepath.Join(vfOutDir(t), "violation_score_panic.json"), js, 0o644)
	}
	cs.flush("random histories of scoring events on the real peerScore under virtual time: connect / disconnect / reconnect, graft / prune, validate, deliver, reject with every reason, duplicates before and after validation and at arbitrary offsets from it, behaviour penalties, decay ticks, delivery-record gc, topic parameter updates (caps lowered and raised), IP assignments, application-score changes; fully and partially specified parameter sets accepted by validate(); every tenth history with P1 left unspecified (TimeInMeshQuantum = 0); after EVERY operation every tracked peer's score, behaviour penalty, connectedness and per-topic counters are compared bit-for-bit (binary64) with the model. " +
		"non-trivial = at least one duplicate, one decay tick and one disconnect of a tracked peer; distinct = hash of the history")
}
