//go:build verif

package pubsub

// Shared plumbing of the /verif correspondence harness. Injected into package pubsub with
// `go test -overlay`; never committed to /repo.

import (
	"context"
	"encoding/json"
	"fmt"
	"hash/fnv"
	"math/rand"
	"os"
	"path/filepath"
	"sort"
	"strconv"
	"strings"
	"testing"
	"time"

	"github.com/libp2p/go-libp2p/core/host"
	"github.com/libp2p/go-libp2p/core/peer"
	"github.com/libp2p/go-libp2p/x/simlibp2p"
	"github.com/marcopolo/simnet"
)

func vfSeed() int64 {
	if s := os.Getenv("VERIF_SEED"); s != "" {
		if v, err := strconv.ParseInt(s, 10, 64); err == nil {
			return v
		}
	}
	return 1
}

func vfThorough() bool { return os.Getenv("VERIF_TIER") == "thorough" }

func vfN(quick, thorough int) int {
	if vfThorough() {
		return thorough
	}
	return quick
}

func vfOutDir(t testing.TB) string {
	d := os.Getenv("VERIF_OUT")
	if d == "" {
		t.Skip("VERIF_OUT not set (harness is driven by /verif/bin/check)")
	}
	if err := os.MkdirAll(d, 0o755); err != nil {
		t.Fatal(err)
	}
	return d
}

// vfCases accumulates cases: a Gallina literal per case plus a JSON record for replay files.
type vfCases struct {
	t        testing.TB
	name     string   // file stem
	imports  string   // Coq Require line(s)
	caseType string   // Gallina type of one case
	checkFn  string   // Gallina function case -> verdict
	shard    int      // max cases per .v file
	lits     []string
	recs     []any
	kinds    map[string]int // distribution of operation kinds etc.
	hashes   map[uint64]bool
	nontriv  int
	samples  []any
	extra    map[string]any
}

func vfNewCases(t testing.TB, name, imports, caseType, checkFn string) *vfCases {
	return &vfCases{t: t, name: name, imports: imports, caseType: caseType, checkFn: checkFn, shard: 400,
		kinds: map[string]int{}, hashes: map[uint64]bool{}, extra: map[string]any{}}
}

// add registers one case. nontrivial is the harness' own judgement by the rule it states.
func (c *vfCases) add(lit string, rec any, nontrivial bool) {
	c.lits = append(c.lits, lit)
	c.recs = append(c.recs, rec)
	h := fnv.New64a()
	h.Write([]byte(lit))
	k := h.Sum64()
	if !c.hashes[k] {
		c.hashes[k] = true
		if nontrivial {
			c.nontriv++
		}
	}
	if len(c.samples) < 3 && nontrivial {
		c.samples = append(c.samples, rec)
	}
}

func (c *vfCases) kind(k string) { c.kinds[k]++ }

func (c *vfCases) flush(rule string) {
	dir := vfOutDir(c.t)
	nsh := 0
	for i := 0; i < len(c.lits); i += c.shard {
		j := i + c.shard
		if j > len(c.lits) {
			j = len(c.lits)
		}
		var b strings.Builder
		b.WriteString(c.imports + "\n")
		b.WriteString("From Coq Require Import List ZArith NArith String. Import ListNotations.\nFrom PS Require Import Run.Verdict.\n")
		b.WriteString("Definition cases : list (" + c.caseType + ") := [\n")
		b.WriteString(strings.Join(c.lits[i:j], ";\n"))
		b.WriteString("\n].\n")
		b.WriteString("Definition R := Eval vm_compute in bad_cases " + c.checkFn + " cases.\nPrint R.\n")
		stem := fmt.Sprintf("cases_%s_%d", c.name, nsh)
		if err := os.WriteFile(filepath.Join(dir, stem+".v"), []byte(b.String()), 0o644); err != nil {
			c.t.Fatal(err)
		}
		js, _ := json.Marshal(c.recs[i:j])
		if err := os.WriteFile(filepath.Join(dir, stem+".json"), js, 0o644); err != nil {
			c.t.Fatal(err)
		}
		nsh++
	}
	if len(c.samples) == 0 && len(c.recs) > 0 {
		c.samples = append(c.samples, c.recs[0])
	}
	st := map[string]any{
		"name": c.name, "cases": len(c.lits), "distinct": len(c.hashes), "distinct_nontrivial": c.nontriv,
		"rule": rule, "kinds": c.kinds, "samples": c.samples, "shards": nsh, "seed": vfSeed(), "extra": c.extra,
	}
	js, _ := json.MarshalIndent(st, "", " ")
	if err := os.WriteFile(filepath.Join(dir, "stats_"+c.name+".json"), js, 0o644); err != nil {
		c.t.Fatal(err)
	}
}

// ---- Gallina literal helpers ----

func vfList[T any](xs []T, f func(T) string) string {
	ss := make([]string, len(xs))
	for i, x := range xs {
		ss[i] = f(x)
	}
	return "[" + strings.Join(ss, "; ") + "]"
}
func vfNat(n int) string   { return strconv.Itoa(n) }
func vfZ(n int64) string   { return "(" + strconv.FormatInt(n, 10) + ")%Z" }
func vfNu(n uint64) string { return strconv.FormatUint(n, 10) + "%N" }
func vfBool(b bool) string {
	if b {
		return "true"
	}
	return "false"
}
func vfNats(xs []int) string { return vfList(xs, vfNat) }

func vfSortedInts(m map[int]bool) []int {
	r := []int{}
	for k := range m {
		r = append(r, k)
	}
	sort.Ints(r)
	return r
}

// ---- node construction ----

func vfHosts(t testing.TB, n int) []host.Host {
	net, meta, err := simlibp2p.SimpleLibp2pNetwork(
		[]simlibp2p.NodeLinkSettingsAndCount{{
			LinkSettings: simnet.NodeBiDiLinkSettings{
				Downlink: simnet.LinkSettings{BitsPerSecond: 20 * simlibp2p.OneMbps},
				Uplink:   simnet.LinkSettings{BitsPerSecond: 20 * simlibp2p.OneMbps},
			},
			Count: n,
		}},
		simnet.StaticLatency(time.Millisecond),
		simlibp2p.NetworkSettings{},
	)
	if err != nil {
		t.Fatal(err)
	}
	net.Start()
	t.Cleanup(func() {
		for _, h := range meta.Nodes {
			h.Close()
		}
		net.Close()
	})
	return meta.Nodes
}

// vfEval runs f inside the event loop and waits for it.
func vfEval(ps *PubSub, f func()) {
	done := make(chan struct{})
	select {
	case ps.eval <- func() { f(); close(done) }:
		<-done
	case <-ps.ctx.Done():
	}
}

// vfPeerIDs returns n deterministic fake peer IDs (valid identity-multihash-free strings are fine
// for everything that does not dial).
func vfPeerIDs(n int) []peer.ID {
	r := make([]peer.ID, n)
	for i := range r {
		r[i] = peer.ID(fmt.Sprintf("vfpeer-%03d", i))
	}
	return r
}

func vfRng(salt int64) *rand.Rand { return rand.New(rand.NewSource(vfSeed()*1000003 + salt)) }

var _ = context.Background
