//go:build verif

package pubsub

import (
	"context"
	"fmt"
	"sort"
	"strings"
	"sync"
	"testing"
	"testing/synctest"

	pb "github.com/libp2p/go-libp2p-pubsub/pb"
)

// One C18 history against the real Topic / TopicEventHandler / membership bookkeeping.
// ops: "S<p>" subscribe RPC, "U<p>" unsubscribe RPC, "D<p>" peer state cleared (stream closed / dead),
// "C" create handler, "X" cancel handler, "N" new NextPeerEvent call, "K<i>" cancel the i-th blocked call.
type vfC18Obs struct {
	Op      string   `json:"op"`
	Rets    []string `json:"rets,omitempty"`
	Blocked []int    `json:"blocked,omitempty"`
	Log     []string `json:"log,omitempty"`
	Token   bool     `json:"token"`
	Mem     []int    `json:"mem,omitempty"`
}

func vfC18Run(t *testing.T, ops []string, npeers int) (string, []vfC18Obs, bool) {
	var lits []string
	var rec []vfC18Obs
	nontriv := false
	synctest.Test(t, func(t *testing.T) {
		ctx, cancel := context.WithCancel(context.Background())
		defer cancel()
		hosts := vfHosts(t, 1)
		ps, err := NewFloodSub(ctx, hosts[0])
		if err != nil {
			t.Fatal(err)
		}
		topic, err := ps.Join("t")
		if err != nil {
			t.Fatal(err)
		}
		pids := vfPeerIDs(npeers)
		idx := map[string]int{}
		for i, p := range pids {
			idx[string(p)] = i
		}
		var h *TopicEventHandler
		var mu sync.Mutex
		type ret struct {
			tid int
			ev  PeerEvent
		}
		var rets []ret
		done := map[int]bool{}
		cancels := map[int]context.CancelFunc{}
		called := []int{}
		ntid := 0
		prevBlocked := map[int]bool{}
		var acts []string

		observe := func(op string) {
			synctest.Wait()
			mu.Lock()
			rs := rets
			rets = nil
			mu.Unlock()
			var blocked []int
			for _, i := range called {
				mu.Lock()
				d := done[i]
				mu.Unlock()
				if !d {
					blocked = append(blocked, i)
				}
			}
			var logl []string
			var logj []string
			token := false
			if h != nil {
				h.evtLogMx.Lock()
				type kv struct {
					p int
					t EventType
				}
				var kvs []kv
				for p, ty := range h.evtLog {
					kvs = append(kvs, kv{idx[string(p)], ty})
				}
				token = len(h.evtLogCh) > 0
				h.evtLogMx.Unlock()
				sort.Slice(kvs, func(a, b int) bool { return kvs[a].p < kvs[b].p })
				for _, e := range kvs {
					logl = append(logl, fmt.Sprintf("(%d, %s)", e.p, vfC18Ty(e.t)))
					logj = append(logj, fmt.Sprintf("%d:%s", e.p, vfC18Ty(e.t)))
				}
			}
			var mem []int
			vfEval(ps, func() {
				for p := range ps.topics["t"] {
					mem = append(mem, idx[string(p)])
				}
			})
			sort.Ints(mem)
			var retl, retj []string
			for _, r := range rs {
				retl = append(retl, fmt.Sprintf("(%d, (%d, %s))", r.tid, idx[string(r.ev.Peer)], vfC18Ty(r.ev.Type)))
				retj = append(retj, fmt.Sprintf("%d<-%d:%s", r.tid, idx[string(r.ev.Peer)], vfC18Ty(r.ev.Type)))
			}
			for _, r := range rs {
				if prevBlocked[r.tid] {
					nontriv = true
				}
			}
			prevBlocked = map[int]bool{}
			for _, i := range blocked {
				prevBlocked[i] = true
			}
			lits = append(lits, fmt.Sprintf("HStep [%s] [%s] %s [%s] %s %s", strings.Join(acts, "; "), strings.Join(retl, "; "), vfNats(blocked),
				strings.Join(logl, "; "), vfBool(token), vfNats(mem)))
			acts = nil
			rec = append(rec, vfC18Obs{Op: op, Rets: retj, Blocked: blocked, Log: logj, Token: token, Mem: mem})
		}

		// subscription announcements carry the optional partial-message flags with varying values: re-announcing a subscription
		// with other flags is not a second join
		nsub := 0
		subOpts := func(sub bool, tt string) *pb.RPC_SubOpts {
			o := &pb.RPC_SubOpts{Subscribe: &sub, Topicid: &tt}
			nsub++
			switch nsub % 4 {
			case 1:
				b := true
				o.RequestsPartial = &b
			case 2:
				b, c := true, true
				o.RequestsPartial, o.SupportsSendingPartial = &b, &c
			case 3:
				b := false
				o.SupportsSendingPartial = &b
			}
			return o
		}
		subRPC := func(p int, sub bool) {
			tt := "t"
			vfEval(ps, func() {
				ps.handleIncomingRPC(&RPC{RPC: pb.RPC{Subscriptions: []*pb.RPC_SubOpts{subOpts(sub, tt)}}, from: pids[p]})
			})
		}

		for _, op := range ops {
			switch op[0] {
			case 'B':
				// several membership changes on DISTINCT peers inside one event-loop turn
				parts := strings.Split(op[2:], ",")
				tt := "t"
				vfEval(ps, func() {
					for _, q := range parts {
						p := int(q[1] - '0')
						switch q[0] {
						case 'S', 'U':
							sub := q[0] == 'S'
							ps.handleIncomingRPC(&RPC{RPC: pb.RPC{Subscriptions: []*pb.RPC_SubOpts{subOpts(sub, tt)}}, from: pids[p]})
						case 'D':
							ps.clearPeerFromTopicsState(pids[p])
						}
					}
				})
				for _, q := range parts {
					p := int(q[1] - '0')
					if q[0] == 'S' {
						acts = append(acts, fmt.Sprintf("ASub %d", p))
					} else {
						acts = append(acts, fmt.Sprintf("AUnsub %d", p))
					}
				}
			case 'S':
				p := int(op[1] - '0')
				subRPC(p, true)
				acts = append(acts, fmt.Sprintf("ASub %d", p))
			case 'U':
				p := int(op[1] - '0')
				subRPC(p, false)
				acts = append(acts, fmt.Sprintf("AUnsub %d", p))
			case 'D':
				p := int(op[1] - '0')
				vfEval(ps, func() { ps.clearPeerFromTopicsState(pids[p]) })
				acts = append(acts, fmt.Sprintf("AUnsub %d", p))
			case 'c':
				// the handler is created while the event loop is busy with membership changes: the call is parked behind them,
				// so the handler must start from the membership AFTER them and must not be told about them
				if h != nil {
					continue
				}
				parts := strings.Split(op[2:], ",")
				tt := "t"
				gate := make(chan struct{})
				evalDone := make(chan struct{})
				go func() {
					vfEval(ps, func() {
						<-gate
						for _, q := range parts {
							p := int(q[1] - '0')
							switch q[0] {
							case 'S', 'U':
								sub := q[0] == 'S'
								ps.handleIncomingRPC(&RPC{RPC: pb.RPC{Subscriptions: []*pb.RPC_SubOpts{subOpts(sub, tt)}}, from: pids[p]})
							case 'D':
								ps.clearPeerFromTopicsState(pids[p])
							}
						}
					})
					close(evalDone)
				}()
				synctest.Wait()
				hc := make(chan *TopicEventHandler, 1)
				go func() {
					hh, err := topic.EventHandler()
					if err != nil {
						t.Error(err)
					}
					hc <- hh
				}()
				synctest.Wait()
				close(gate)
				h = <-hc
				<-evalDone
				for _, q := range parts {
					p := int(q[1] - '0')
					if q[0] == 'S' {
						acts = append(acts, fmt.Sprintf("ASub %d", p))
					} else {
						acts = append(acts, fmt.Sprintf("AUnsub %d", p))
					}
				}
				acts = append(acts, "ACreate")
			case 'C':
				if h != nil {
					continue
				}
				h, err = topic.EventHandler()
				if err != nil {
					t.Fatal(err)
				}
				acts = append(acts, "ACreate")
			case 'Y':
				// another handler on the same topic comes and goes (cancelled twice: harmless); handlers are independent, so the
				// one under observation must not notice
				h2, err := topic.EventHandler()
				if err != nil {
					t.Fatal(err)
				}
				h2.Cancel()
				h2.Cancel()
			case 'X':
				if h == nil {
					continue
				}
				h.Cancel()
				acts = append(acts, "ACancelH")
			case 'N', 'n':
				if h == nil {
					continue
				}
				i := ntid
				ntid++
				cctx, ccancel := context.WithCancel(ctx)
				cancels[i] = ccancel
				called = append(called, i)
				go func() {
					ev, err := h.NextPeerEvent(cctx)
					mu.Lock()
					if err == nil {
						rets = append(rets, ret{i, ev})
					}
					done[i] = true
					mu.Unlock()
				}()
				acts = append(acts, fmt.Sprintf("ACall %d", i))
				if op == "n" {
					continue // no quiescence point: the call races with whatever comes next
				}
			case 'Z':
				// a call made with a context that is cancelled already: it still hands over a pending event, and fails only
				// when there is nothing to hand over
				if h == nil {
					continue
				}
				i := ntid
				ntid++
				cctx, ccancel := context.WithCancel(ctx)
				ccancel()
				called = append(called, i)
				ev, err := h.NextPeerEvent(cctx)
				mu.Lock()
				if err == nil {
					rets = append(rets, ret{i, ev})
				}
				done[i] = true
				mu.Unlock()
				acts = append(acts, fmt.Sprintf("ACall %d", i))
				if err != nil {
					acts = append(acts, fmt.Sprintf("ACancelT %d", i))
				}
			case 'K':
				// cancel the k-th call that was parked at the last quiescence point
				blocked := vfSortedInts(prevBlocked)
				if len(blocked) == 0 {
					continue
				}
				i := blocked[int(op[1]-'0')%len(blocked)]
				cancels[i]()
				acts = append(acts, fmt.Sprintf("ACancelT %d", i))
			}
			observe(op)
		}
		// drain: keep calling until a call blocks, so the replay clause of the monitor is exercised
		if h != nil {
			for k := 0; k < 2*npeers+2; k++ {
				mu.Lock()
				nb := 0
				for _, i := range called {
					if !done[i] {
						nb++
					}
				}
				mu.Unlock()
				if nb > 0 {
					break
				}
				i := ntid
				ntid++
				cctx, ccancel := context.WithCancel(ctx)
				cancels[i] = ccancel
				called = append(called, i)
				go func() {
					ev, err := h.NextPeerEvent(cctx)
					mu.Lock()
					if err == nil {
						rets = append(rets, ret{i, ev})
					}
					done[i] = true
					mu.Unlock()
				}()
				acts = append(acts, fmt.Sprintf("ACall %d", i))
				observe("drain")
			}
		}
		for _, c := range cancels {
			c()
		}
		cancel()
		synctest.Wait()
	})
	return "[" + strings.Join(lits, "; ") + "]", rec, nontriv
}

func vfC18Ty(t EventType) string {
	if t == PeerJoin {
		return "Join"
	}
	return "Leave"
}

func TestVF_C18(t *testing.T) {
	cs := vfNewCases(t, "c18", "From PS Require Import Model.EventLog Run.C18Run.", "list hop", "check_case")
	rng := vfRng(18)
	alphabet := []string{"S0", "S1", "U0", "U1", "D0", "D1", "C", "N", "N", "K0", "X", "Z"}
	// exhaustive short sequences over two peers (quick: length <= 3, thorough: length <= 5)
	maxLen := vfN(3, 5)
	exh := []string{"S0", "S1", "U0", "D1", "C", "N", "K0", "Z"}
	var gen func(prefix []string, depth int)
	nexh := 0
	gen = func(prefix []string, depth int) {
		if len(prefix) > 0 {
			lit, rec, nt := vfC18Run(t, prefix, 2)
			cs.add(lit, map[string]any{"ops": append([]string{}, prefix...), "obs": rec}, nt)
			nexh++
		}
		if depth == 0 {
			return
		}
		for _, a := range exh {
			gen(append(prefix, a), depth-1)
		}
	}
	gen(nil, maxLen)
	cs.extra["exhaustive_sequences"] = nexh
	cs.extra["exhaustive_max_len"] = maxLen
	// random long ones over six peers
	nrand := vfN(120, 1500)
	for c := 0; c < nrand; c++ {
		n := 8 + rng.Intn(40)
		np := 2 + rng.Intn(5)
		ops := make([]string, 0, n)
		created := false
		for i := 0; i < n; i++ {
			r := rng.Intn(100)
			var op string
			switch {
			case !created && r < 25:
				op = "C"
				created = true
				if rng.Intn(3) == 0 {
					perm := rng.Perm(np)
					k := 1 + rng.Intn(2)
					var parts []string
					for _, p := range perm[:k] {
						parts = append(parts, fmt.Sprintf("%c%d", "SUUD"[rng.Intn(4)], p))
					}
					op = "c:" + strings.Join(parts, ",")
				}
			case r < 33:
				perm := rng.Perm(np)
				k := 2 + rng.Intn(2)
				if k > np {
					k = np
				}
				var parts []string
				for _, p := range perm[:k] {
					parts = append(parts, fmt.Sprintf("%c%d", "SSUD"[rng.Intn(4)], p))
				}
				op = "B:" + strings.Join(parts, ",")
			case r < 40:
				op = fmt.Sprintf("S%d", rng.Intn(np))
			case r < 55:
				op = fmt.Sprintf("U%d", rng.Intn(np))
			case r < 65:
				op = fmt.Sprintf("D%d", rng.Intn(np))
			case r < 80:
				op = "N"
			case r < 88:
				op = "n"
			case r < 93:
				op = fmt.Sprintf("K%d", rng.Intn(4))
			case r < 96:
				op = "Z"
			case r < 97:
				op = "Y"
			case r < 98:
				op = "X"
			default:
				op = alphabet[rng.Intn(len(alphabet))]
			}
			ops = append(ops, op)
			cs.kind(op[:1])
		}
		lit, rec, nt := vfC18Run(t, ops, np)
		cs.add(lit, map[string]any{"ops": ops, "obs": rec}, nt)
	}
	cs.flush("exhaustive op sequences over 2 peers up to the stated length plus random histories over 2..6 peers; " +
		"non-trivial = at least one blocked NextPeerEvent call was woken by a later notification; distinct = by hash of the full observed history")
}
