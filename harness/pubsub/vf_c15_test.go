//go:build verif

package pubsub

import (
	"context"
	"fmt"
	"runtime"
	"sort"
	"strings"
	"sync"
	"sync/atomic"
	"testing"
	"testing/synctest"
)

// One group = external operations issued without a quiescence point in between.
// op syntax: "P" pop, "H" pop that parks at the schedule point (pop-before-wait), "R" release it,
// "Un"/"Uu" non-blocking normal/urgent push, "Bn"/"Bu" blocking push, "C<k>" cancel k-th blocked
// (or the hooked) popper, "c" start a pop whose context is already cancelled, "X" close.
type vfC15Hop struct {
	Ops     []string          `json:"ops"`
	Hooked  []int             `json:"hooked,omitempty"`
	Res     map[string]string `json:"res,omitempty"`
	BPop    []int             `json:"blocked_pops,omitempty"`
	BPush   []int             `json:"blocked_pushes,omitempty"`
	Len     int               `json:"len"`
	Prio    []int             `json:"prio,omitempty"`
	Norm    []int             `json:"norm,omitempty"`
}

func vfC15Run(t *testing.T, capacity int, groups [][]string) (string, []vfC15Hop, bool) {
	var hopsLit []string
	var rec []vfC15Hop
	nontriv := false
	synctest.Test(t, func(t *testing.T) {
		q := newRpcQueue(capacity)
		var mu sync.Mutex
		results := map[int]string{} // tid -> Gallina res
		reported := map[int]bool{}
		kind := map[int]byte{} // 'p' popper, 'u' pusher
		cancels := map[int]context.CancelFunc{}
		cancelled := map[int]bool{}
		itemID := map[*RPC]int{}
		ntid, nitem := 0, 0
		hooked := -1
		var arm atomic.Int32
		parked := make(chan struct{}, 1)
		release := make(chan struct{})
		hook := func(name string) {
			if name == "pop-before-wait" && arm.CompareAndSwap(1, 0) {
				parked <- struct{}{}
				<-release
			}
		}
		verifSchedHook.Store(&hook)
		defer verifSchedHook.Store(nil)
		doneCh := make(chan int, 64)

		startPop := func(preCancel bool) int {
			i := ntid
			ntid++
			kind[i] = 'p'
			ctx, cancel := context.WithCancel(context.Background())
			cancels[i] = cancel
			if preCancel {
				cancel()
				cancelled[i] = true
			}
			go func() {
				rpc, err := q.Pop(ctx)
				mu.Lock()
				switch err {
				case nil:
					results[i] = fmt.Sprintf("RItem %d", itemID[rpc])
				case ErrQueueCancelled:
					results[i] = "RCancelled"
				case ErrQueueClosed:
					results[i] = "RClosed"
				default:
					results[i] = "RBlocked"
				}
				mu.Unlock()
				select {
				case doneCh <- i:
				default:
				}
			}()
			return i
		}
		startPush := func(urgent, block bool) (int, int) {
			i := ntid
			ntid++
			kind[i] = 'u'
			x := nitem
			nitem++
			rpc := &RPC{}
			mu.Lock()
			itemID[rpc] = x
			mu.Unlock()
			go func() {
				defer func() {
					if r := recover(); r != nil {
						mu.Lock()
						results[i] = "RPanic"
						mu.Unlock()
					}
				}()
				var err error
				if urgent {
					err = q.UrgentPush(rpc, block)
				} else {
					err = q.Push(rpc, block)
				}
				mu.Lock()
				if err == nil {
					results[i] = "ROk"
				} else if err == ErrQueueFull {
					results[i] = "RFull"
				} else {
					results[i] = "RBlocked"
				}
				mu.Unlock()
			}()
			return i, x
		}
		blockedPops := func() []int {
			var r []int
			mu.Lock()
			for i := 0; i < ntid; i++ {
				if _, ok := results[i]; !ok && kind[i] == 'p' && i != hooked {
					r = append(r, i)
				}
			}
			mu.Unlock()
			return r
		}

		prevBlockedPops := []int{}
		for _, g := range groups {
			var ext []string
			var opsDone []string
			for _, op := range g {
				switch op[0] {
				case 'P':
					i := startPop(false)
					ext = append(ext, fmt.Sprintf("XPop %d", i))
				case 'c':
					i := startPop(true)
					ext = append(ext, fmt.Sprintf("XCancel %d", i), fmt.Sprintf("XPop %d", i))
				case 'S':
					// pop performed inline by the harness goroutine with an already cancelled context
					// (never blocks): consecutive ones run back to back, ahead of any goroutine they wake
					if hooked >= 0 {
						continue
					}
					i := ntid
					ntid++
					kind[i] = 'p'
					cctx, ccancel := context.WithCancel(context.Background())
					ccancel()
					cancelled[i] = true
					rpc, err := q.Pop(cctx)
					mu.Lock()
					switch err {
					case nil:
						results[i] = fmt.Sprintf("RItem %d", itemID[rpc])
					case ErrQueueCancelled:
						results[i] = "RCancelled"
					case ErrQueueClosed:
						results[i] = "RClosed"
					}
					mu.Unlock()
					ext = append(ext, fmt.Sprintf("XCancel %d", i), fmt.Sprintf("XPopH %d", i))
				case 'H':
					if hooked >= 0 {
						continue
					}
					arm.Store(1)
					i := startPop(false)
					ext = append(ext, fmt.Sprintf("XPop %d", i))
					// wait until it parks at the schedule point or returns without reaching it
					for waiting := true; waiting; {
						select {
						case <-parked:
							hooked = i
							waiting = false
						case j := <-doneCh:
							if j == i {
								waiting = false
							}
						}
					}
					arm.Store(0)
				case 'R':
					if hooked < 0 {
						continue
					}
					// give a pending AfterFunc goroutine (if it does not need the mutex) time to run first
					for k := 0; k < 3000; k++ {
						runtime.Gosched()
					}
					ext = append(ext, fmt.Sprintf("XRelease %d", hooked))
					hooked = -1
					release <- struct{}{}
				case 'U', 'B':
					if hooked >= 0 {
						continue // the mutex is held by the parked popper
					}
					i, x := startPush(op[1] == 'u', op[0] == 'B')
					ext = append(ext, fmt.Sprintf("XPush %d %d %s %s", i, x, vfBool(op[1] == 'u'), vfBool(op[0] == 'B')))
				case 'C':
					var cands []int
					if hooked >= 0 {
						cands = []int{hooked}
					} else {
						for _, i := range prevBlockedPops {
							if !cancelled[i] {
								cands = append(cands, i)
							}
						}
					}
					if len(cands) == 0 {
						continue
					}
					i := cands[int(op[1]-'0')%len(cands)]
					cancelled[i] = true
					cancels[i]()
					ext = append(ext, fmt.Sprintf("XCancel %d", i))
				case 'X':
					if hooked >= 0 {
						continue
					}
					func() {
						defer func() { recover() }()
						q.Close()
					}()
					ext = append(ext, "XClose")
				}
				opsDone = append(opsDone, op)
			}
			if len(ext) == 0 {
				continue
			}
			if hooked < 0 {
				synctest.Wait()
			} else {
				// the parked popper holds the mutex: goroutines waiting for it are not durably blocked,
				// so no synctest.Wait here; nothing else has been started in this window.
				for k := 0; k < 3000; k++ {
					runtime.Gosched()
				}
			}
			// drain doneCh
			for drained := false; !drained; {
				select {
				case <-doneCh:
				default:
					drained = true
				}
			}
			mu.Lock()
			var resl []string
			resj := map[string]string{}
			var tids []int
			for i := range results {
				if !reported[i] {
					tids = append(tids, i)
				}
			}
			sort.Ints(tids)
			for _, i := range tids {
				reported[i] = true
				resl = append(resl, fmt.Sprintf("(%d, %s)", i, results[i]))
				resj[fmt.Sprint(i)] = results[i]
			}
			var bpush []int
			for i := 0; i < ntid; i++ {
				if _, ok := results[i]; !ok && kind[i] == 'u' {
					bpush = append(bpush, i)
				}
			}
			mu.Unlock()
			bpop := blockedPops()
			for _, i := range tids {
				for _, j := range prevBlockedPops {
					if i == j {
						nontriv = true // a blocked pop resumed
					}
				}
			}
			prevBlockedPops = bpop
			hk := []int{}
			if hooked >= 0 {
				hk = []int{hooked}
			}
			qlen := 0
			var prio, norm []int
			if hooked < 0 {
				q.queueMu.Lock()
				qlen = q.queue.Len()
				mu.Lock()
				for _, r := range q.queue.priority {
					prio = append(prio, itemID[r])
				}
				for _, r := range q.queue.normal {
					norm = append(norm, itemID[r])
				}
				mu.Unlock()
				q.queueMu.Unlock()
			}
			hopsLit = append(hopsLit, fmt.Sprintf("{| h_ext := [%s]; h_hooked := %s; h_res := [%s]; h_bpop := %s; h_bpush := %s; h_len := %d; h_prio := %s; h_norm := %s |}",
				strings.Join(ext, "; "), vfNats(hk), strings.Join(resl, "; "), vfNats(bpop), vfNats(bpush), qlen, vfNats(prio), vfNats(norm)))
			rec = append(rec, vfC15Hop{Ops: opsDone, Hooked: hk, Res: resj, BPop: bpop, BPush: bpush, Len: qlen, Prio: prio, Norm: norm})
		}
		// tear down: release, close, cancel everything so the bubble can end
		if hooked >= 0 {
			release <- struct{}{}
		}
		func() {
			defer func() { recover() }()
			q.Close()
		}()
		for _, c := range cancels {
			c()
		}
		synctest.Wait()
	})
	return fmt.Sprintf("{| c_cap := %d; c_hops := [%s] |}", capacity, strings.Join(hopsLit, ";\n  ")), rec, nontriv
}

func TestVF_C15(t *testing.T) {
	cs := vfNewCases(t, "c15", "From PS Require Import Model.RpcQueue Model.RpcQueueIR Run.C15Run.\nFrom VG Require Import RpcQueueGen.", "case", "(check_case (af_locked_of gen_prog))")
	cs.shard = 250
	rng := vfRng(15)
	// (a) exhaustive sequential sequences against every capacity 1..3
	alpha := []string{"Un", "Uu", "c", "X"}
	maxLen := vfN(5, 6)
	nseq := 0
	var gen func(prefix []string, depth int)
	for capacity := 1; capacity <= 3; capacity++ {
		gen = func(prefix []string, depth int) {
			if len(prefix) > 0 && depth == 0 {
				groups := make([][]string, len(prefix))
				for i, p := range prefix {
					groups[i] = []string{p}
				}
				lit, rec, _ := vfC15Run(t, capacity, groups)
				cs.add(lit, map[string]any{"cap": capacity, "kind": "sequential", "hops": rec}, len(prefix) >= 3)
				nseq++
				return
			}
			if depth == 0 {
				return
			}
			for _, a := range alpha {
				gen(append(append([]string{}, prefix...), a), depth-1)
			}
		}
		for l := 1; l <= maxLen; l++ {
			if l < maxLen && l > 3 {
				continue // shorter sequences are prefixes of the longest ones; keep 1..3 as small samples
			}
			gen(nil, l)
		}
	}
	cs.extra["exhaustive_sequential_sequences"] = nseq
	cs.extra["exhaustive_max_len"] = maxLen
	// (b) forced schedules around the cancel-versus-wait window
	forced := [][][]string{
		{{"H", "C0", "R"}},                        // cancel lands between the context check and the wait
		{{"H", "R"}, {"C0"}},                      // cancel after the wait
		{{"P"}, {"P"}, {"H", "C0", "R"}, {"Un"}},  // other poppers parked while it happens
		{{"H", "C0", "R"}, {"Un"}, {"P"}},
		{{"P"}, {"H", "C0", "R"}, {"C0"}, {"X"}},
		{{"Un"}, {"H", "C0", "R"}},                // data available: never reaches the schedule point
		{{"Un"}, {"Un"}, {"Un"}, {"Bn"}, {"Bu"}, {"Bn"}, {"S", "S"}, {"S", "S", "S"}}, // several blocked pushers, pops back to back
		{{"Uu"}, {"Un"}, {"Bn"}, {"Bn"}, {"S", "S"}, {"P"}, {"P"}, {"P"}, {"P"}},
	}
	for capacity := 1; capacity <= 3; capacity++ {
		for _, f := range forced {
			lit, rec, nt := vfC15Run(t, capacity, f)
			cs.add(lit, map[string]any{"cap": capacity, "kind": "forced", "hops": rec}, true || nt)
			cs.kind("forced")
		}
	}
	// (c) random concurrent histories: blocked pushers and poppers, cancels, close, small batches
	nrand := vfN(250, 1500)
	ops := []string{"P", "P", "P", "Un", "Uu", "Bn", "Bn", "Bu", "C0", "C1", "c", "S", "S", "X", "H", "R"}
	for c := 0; c < nrand; c++ {
		capacity := 1 + rng.Intn(3)
		ng := 4 + rng.Intn(14)
		var groups [][]string
		for g := 0; g < ng; g++ {
			k := 1
			if rng.Intn(4) == 0 {
				k = 2 + rng.Intn(2)
			}
			var grp []string
			for j := 0; j < k; j++ {
				op := ops[rng.Intn(len(ops))]
				if op == "X" && rng.Intn(3) != 0 {
					op = "P"
				}
				if op == "H" {
					// a complete hooked window inside one group
					if rng.Intn(2) == 0 {
						grp = append(grp, "H", "C0", "R")
					} else {
						grp = append(grp, "H", "R")
					}
					cs.kind("H")
					continue
				}
				grp = append(grp, op)
				cs.kind(op[:1])
			}
			groups = append(groups, grp)
		}
		lit, rec, nt := vfC15Run(t, capacity, groups)
		cs.add(lit, map[string]any{"cap": capacity, "kind": "random", "hops": rec}, nt)
	}
	cs.flush("(a) every sequence of non-blocking push / urgent push / pop-with-cancelled-context / close up to the stated length for capacities 1..3; " +
		"(b) forced schedules with the verif schedule point (cancel between Pop's context check and its wait); (c) random concurrent histories with blocking pushers, poppers, cancels, close and small unsynchronised batches. " +
		"non-trivial = a blocked pop resumed (random), length>=3 (sequential), all forced; distinct = hash of the observed history")
}
